#!/bin/sh
# Re-confirm every recorded seeded change against the current /repo and /verif (refreshes seeded/*/meta.json).
# Usage: tools/reseed_all.sh [parallel jobs, default 3]
cd "$(dirname "$0")/.."
J=${1:-3}
ls seeded | xargs -P "$J" -I@@ sh -c '
  d=seeded/@@
  prop=$(python3 -c "import json; print(json.load(open(\"$d/meta.json\"))[\"property\"])")
  also=$(python3 -c "import json; m=json.load(open(\"$d/meta.json\")); print(\" \".join(k for k in m.get(\"checks\",dict()) if k!=m[\"property\"]))")
  r=$(python3 tools/seed.py "$prop" "@@" "/verif/$d" ${also:+--also $also} 2>&1 | grep -E "\"detected\"|rror" | tr -d "\n")
  printf "%-52s %s\n" "@@" "$r"
'
