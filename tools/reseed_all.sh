#!/bin/sh
# Re-confirm every recorded seeded change against the current /repo and /verif (refreshes seeded/*/meta.json).
cd "$(dirname "$0")/.."
for d in seeded/*/; do
  name=$(basename "$d")
  prop=$(python3 -c "import json,sys; print(json.load(open('$d/meta.json'))['property'])")
  also=$(python3 -c "import json,sys; m=json.load(open('$d/meta.json')); print(' '.join(k for k in m.get('checks',{}) if k!=m['property']))")
  printf "%-45s " "$name"
  python3 tools/seed.py "$prop" "$name" "/verif/$d" ${also:+--also $also} 2>&1 | grep -E '"detected"|rror' | tr -d '\n'
  echo
done
