#!/usr/bin/env python3
"""Confirm a seeded change produced by a sub-agent and record it under /verif/seeded/<name>/.

  tools/seed.py <property> <name> <dir with patch.diff, demo.py, meta.txt> [--tier quick] [--also C05 ...]

Steps (all in a scratch worktree of /repo outside /repo and /verif, removed afterwards):
  1. the patch applies to /repo's HEAD;  2. the repository test-suite passes with it;
  3. demo.py fails with it and passes without it;  4. the registered check of the property (and of any
  --also property) is run against the patched tree (DAGRT_REPO) and must print a VIOLATION line.
"""
import json
import os
import shutil
import subprocess
import sys
import time

VERIF = os.path.dirname(os.path.dirname(os.path.abspath(__file__)))


def sh(cmd, **kw):
    return subprocess.run(cmd, shell=True, stdout=subprocess.PIPE, stderr=subprocess.STDOUT, text=True, **kw)


def main():
    prop, name, src = sys.argv[1:4]
    tier = "quick"
    also = []
    rest = sys.argv[4:]
    if "--tier" in rest:
        tier = rest[rest.index("--tier") + 1]
    if "--also" in rest:
        also = rest[rest.index("--also") + 1:]
    scratch = "/tmp/seedchk_%s" % name
    sh("git -C /repo worktree remove --force %s" % scratch)
    r = sh("git -C /repo worktree add --detach %s HEAD" % scratch)
    assert r.returncode == 0, r.stdout
    meta = {"property": prop, "name": name, "confirmed_at": time.strftime("%Y-%m-%d %H:%M:%S"),
            "repo_head": sh("git -C /repo log --format=%h -1").stdout.strip()}
    try:
        patch = os.path.join(src, "patch.diff")
        r = sh("git -C %s apply %s" % (scratch, patch))
        meta["patch_applies"] = r.returncode == 0
        assert r.returncode == 0, r.stdout
        env = "cd %s && PYTHONPATH=%s" % (scratch, scratch)
        r = sh("%s /venv/bin/python -m pytest -q -p no:cacheprovider -W ignore 2>&1 | tail -1" % env)
        meta["tests_with_change"] = r.stdout.strip()
        r = sh("%s /venv/bin/python -W ignore %s" % (env, os.path.join(src, "demo.py")))
        meta["demo_with_change_rc"] = r.returncode
        r2 = sh("cd /repo && PYTHONPATH=/repo /venv/bin/python -W ignore %s" % os.path.join(src, "demo.py"))
        meta["demo_without_change_rc"] = r2.returncode
        meta["checks"] = {}
        for p in [prop] + also:
            t0 = time.time()
            r = sh("cd %s && DAGRT_REPO=%s VERIF_TIMEOUT=1500 ./check %s --tier %s" % (VERIF, scratch, p, tier))
            viol = [l for l in r.stdout.splitlines() if l.startswith("VIOLATION")]
            sigs = [l.strip() for l in r.stdout.splitlines() if l.strip().startswith("signature:")]
            meta["checks"][p] = {"cmd": "DAGRT_REPO=<patched tree> ./check %s --tier %s" % (p, tier), "rc": r.returncode,
                                 "violations": len(viol), "signatures": sigs[:6], "wall_s": round(time.time() - t0, 1)}
        meta["detected"] = any(c["violations"] > 0 for c in meta["checks"].values())
        out = os.path.join(VERIF, "seeded", name)
        os.makedirs(out, exist_ok=True)
        if os.path.exists(os.path.join(src, "meta.txt")):
            meta["what_it_needs"] = open(os.path.join(src, "meta.txt")).read()
        elif os.path.exists(os.path.join(out, "meta.json")):
            meta["what_it_needs"] = json.load(open(os.path.join(out, "meta.json"))).get("what_it_needs", "")
        if os.path.realpath(src) != os.path.realpath(out):
            shutil.copy(patch, os.path.join(out, "patch.diff"))
            shutil.copy(os.path.join(src, "demo.py"), os.path.join(out, "demo.py"))
        with open(os.path.join(out, "meta.json"), "w") as f:
            json.dump(meta, f, indent=1)
        print(json.dumps({k: v for k, v in meta.items() if k != "what_it_needs"}, indent=1))
    finally:
        sh("git -C /repo worktree remove --force %s" % scratch)


if __name__ == "__main__":
    main()
