"""Program generation: behaviours of specs/ProgGen.tla (exhaustive or simulated by TLC) turned
into builder-call sequences, plus a seeded Python sampler producing larger programs in the same
format."""

import json
import random

from . import tlc

STRUCT = [{"op": "endif"}, {"op": "endelse"}, {"op": "else"}]


def V(n):
    return ["v", n]


def C(n):
    return ["c", n]


def S(*xs):
    return ["sum", list(xs)]


def P(*xs):
    return ["prod", list(xs)]


def CMP(op, a, b):
    return ["cmp", op, a, b]


def assign(lhs, rhs, sub=None, loops=None):
    return {"op": "assign", "lhs": lhs, "sub": sub or [], "rhs": rhs, "loops": loops or []}


def acall(lhs, f, args, kw=None):
    return {"op": "acall", "lhs": list(lhs), "f": f, "args": list(args), "kw": kw or []}


def yield_(e, comp="y", time=None, tid="final"):
    return {"op": "yield", "e": e, "comp": comp, "time": time or V("<t>"), "tid": tid}


def if_(c):
    return {"op": "if", "c": c}


def tlc_programs(alphabet, depth, maxnest=2, minlen=1, simulate=None, seed=0, chk=None,
                 timeout=900):
    """Run ProgGen over the alphabet (structural entries are appended here).  Returns the list of
    distinct programs, each a list of call dicts."""
    alpha = list(alphabet) + STRUCT
    prof = {"alphabet": alpha, "depth": depth, "maxnest": maxnest, "minlen": minlen}
    path = tlc.write_cases(prof, prefix="profile_")
    if simulate:
        res = tlc.run_tlc("ProgGen", env={"PROFILE": path}, workers=1,
                          simulate="num=%d" % simulate, depth=depth + 1, seed=seed, timeout=timeout)
    else:
        res = tlc.run_tlc("ProgGen", env={"PROFILE": path}, timeout=timeout)
    if chk is not None:
        chk.add_tlc(res)
    seen = set()
    out = []
    for idxs in res.json_lines("GEN"):
        key = tuple(idxs)
        if key in seen:
            continue
        seen.add(key)
        out.append([alpha[k - 1] for k in idxs])
    return out, res


def random_program(rng, alphabet, length, maxnest=2):
    """Seeded sampler with the same protocol as ProgGen (used for programs longer than TLC's
    exhaustive bound)."""
    calls = []
    stack = []
    last_if = False
    plain = [a for a in alphabet if a["op"] != "if"]
    ifs = [a for a in alphabet if a["op"] == "if"]
    while len(calls) + len(stack) < length:
        r = rng.random()
        if stack and r < 0.2:
            top = stack.pop()
            calls.append({"op": "endif" if top == "if" else "endelse"})
            last_if = top == "if"
        elif ifs and len(stack) < maxnest and r < 0.4 and len(calls) + len(stack) + 2 <= length:
            calls.append(rng.choice(ifs))
            stack.append("if")
        elif last_if and len(stack) < maxnest and r < 0.5 and len(calls) + len(stack) + 2 <= length:
            calls.append({"op": "else"})
            stack.append("else")
        else:
            calls.append(rng.choice(plain))
    while stack:
        top = stack.pop()
        calls.append({"op": "endif" if top == "if" else "endelse"})
    return calls
