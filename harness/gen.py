"""Program generation: behaviours of specs/ProgGen.tla (exhaustive or simulated by TLC) turned
into builder-call sequences, plus a seeded Python sampler producing larger programs in the same
format."""

import json
import random

from . import tlc

STRUCT = [{"op": "endif"}, {"op": "endelse"}, {"op": "else"}]


def V(n):
    return ["v", n]


def C(n):
    return ["c", n]


def S(*xs):
    return ["sum", list(xs)]


def P(*xs):
    return ["prod", list(xs)]


def CMP(op, a, b):
    return ["cmp", op, a, b]


def assign(lhs, rhs, sub=None, loops=None):
    return {"op": "assign", "lhs": lhs, "sub": sub or [], "rhs": rhs, "loops": loops or []}


def acall(lhs, f, args, kw=None):
    return {"op": "acall", "lhs": list(lhs), "f": f, "args": list(args), "kw": kw or []}


def yield_(e, comp="y", time=None, tid="final"):
    return {"op": "yield", "e": e, "comp": comp, "time": time or V("<t>"), "tid": tid}


def implicit(lhs, solve, eqs, params):
    return {"op": "implicit", "lhs": list(lhs), "solve": list(solve), "exprs": list(eqs), "params": [list(p) for p in params]}


def if_(c):
    return {"op": "if", "c": c}


def needs_defs(call, defined):
    """Temporaries a call reads / certainly assigns (for typed generation).  `defined` are the names
    that always have a value (inputs)."""
    from . import exprs
    op = call["op"]
    reads, defs, loopids = set(), set(), set()
    if op == "assign":
        loopids = {i for i, _lo, _hi in call.get("loops", [])}
        exprs.variables(call["rhs"], reads)
        for s in call.get("sub", []):
            exprs.variables(s, reads)
        for _i, lo, hi in call.get("loops", []):
            exprs.variables(lo, reads)
            exprs.variables(hi, reads)
        if call.get("sub"):
            reads.add(call["lhs"])
        elif not call.get("loops"):
            defs.add(call["lhs"])
    elif op == "acall":
        for a in call["args"]:
            exprs.variables(a, reads)
        for _k, a in call["kw"]:
            exprs.variables(a, reads)
        defs.update(call["lhs"])
    elif op == "implicit":
        for a in call["exprs"]:
            exprs.variables(a, reads)
        reads -= set(call["solve"])
        for _k, a in call["params"]:
            exprs.variables(a, reads)
        defs.update(call["lhs"])
    elif op == "yield":
        exprs.variables(call["e"], reads)
        exprs.variables(call["time"], reads)
    elif op == "if":
        exprs.variables(call["c"], reads)
    return sorted(reads - loopids - set(defined)), sorted(defs)


def annotate(alphabet, defined):
    out = []
    for c in alphabet:
        n, d = needs_defs(c, defined)
        out.append(dict(c, needs=n, defs=d))
    return out


def tlc_programs(alphabet, depth, maxnest=2, minlen=1, simulate=None, seed=0, chk=None,
                 timeout=900, typed=None):
    """Run ProgGen over the alphabet (structural entries are appended here).  Returns the list of
    distinct programs, each a list of call dicts.  typed = set of always-defined names switches on
    the generation of programs that only read assigned temporaries."""
    alpha = annotate(list(alphabet) + STRUCT, typed or ())
    prof = {"alphabet": alpha, "depth": depth, "maxnest": maxnest, "minlen": minlen,
            "typed": typed is not None}
    path = tlc.write_cases(prof, prefix="profile_")
    if simulate:
        res = tlc.run_tlc("ProgGen", env={"PROFILE": path}, workers=1,
                          simulate="num=%d" % simulate, depth=depth + 1, seed=seed, timeout=timeout)
    else:
        res = tlc.run_tlc("ProgGen", env={"PROFILE": path}, timeout=timeout)
    if chk is not None:
        chk.add_tlc(res)
    seen = set()
    out = []
    for idxs in res.json_lines("GEN"):
        key = tuple(idxs)
        if key in seen:
            continue
        seen.add(key)
        out.append([{f: v for f, v in alpha[k - 1].items() if f not in ("needs", "defs")} for k in idxs])
    return out, res


def random_program(rng, alphabet, length, maxnest=2, typed=None):
    """Seeded sampler with the same protocol as ProgGen (used for programs longer than TLC's
    exhaustive bound)."""
    calls = []
    stack = []
    last_if = False
    alpha = annotate(alphabet, typed or ())
    defd = [set()]

    def ready(a):
        return typed is None or set(a["needs"]) <= defd[-1]

    def strip(a):
        return {f: v for f, v in a.items() if f not in ("needs", "defs")}

    guard = 0
    while len(calls) + len(stack) < length and guard < 10 * length:
        guard += 1
        r = rng.random()
        plain = [a for a in alpha if a["op"] != "if" and ready(a)]
        ifs = [a for a in alpha if a["op"] == "if" and ready(a)]
        if stack and r < 0.2:
            top = stack.pop()
            defd.pop()
            calls.append({"op": "endif" if top == "if" else "endelse"})
            last_if = top == "if"
        elif ifs and len(stack) < maxnest and r < 0.4 and len(calls) + len(stack) + 2 <= length:
            calls.append(strip(rng.choice(ifs)))
            stack.append("if")
            defd.append(set(defd[-1]))
        elif last_if and len(stack) < maxnest and r < 0.5 and len(calls) + len(stack) + 2 <= length:
            calls.append({"op": "else"})
            stack.append("else")
            defd.append(set(defd[-1]))
        elif plain:
            a = rng.choice(plain)
            calls.append(strip(a))
            defd[-1] |= set(a["defs"])
    while stack:
        top = stack.pop()
        calls.append({"op": "endif" if top == "if" else "endelse"})
    return calls
