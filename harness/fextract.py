"""Extraction of the memory-management skeleton of a module emitted by the real Fortran generator:
every subroutine becomes a flat list of abstract instructions over reference-counted pointers

  ["alloc", v, rc]      call dagrt_alloc_check_T(v, rc)
  ["deinit", v, rc]     call dagrt_deinit_T(v, rc)
  ["passign", a, b]     a => b              (data pointer or counter pointer)
  ["incr", rc]          rc = rc + 1
  ["setrc", rc]         rc = 1
  ["nullify", v]        nullify(v)
  ["allocraw", v]       allocate(v(...))    (initialize)
  ["allocrc", rc]       allocate(rc)
  ["use", v]            any other statement mentioning the data pointer v
  ["br", target, lits]  if the conjunction of literals [[name, polarity], ...] is FALSE jump to target
  ["jmp", target]       goto / end of an if-branch
  ["again", target]     end of a do-loop body: either back to target (next iteration) or on (loop ends)
  ["setphase", p]       dagrt_state%dagrt_next_phase = dagrt_phase_p
  ["call", sub]         call of a phase function
  ["stop"]              stop
  ["ret"]               end subroutine

The emitted text is regular (one statement per line after joining continuation lines); anything that
mentions a known pointer in a form not listed above is kept as a use, anything else is dropped."""

import re


def join_lines(text):
    out, cur = [], ""
    for ln in text.split("\n"):
        s = ln.rstrip()
        if s.lstrip().startswith("!"):
            continue
        if "!" in s and "'" not in s:
            s = s[:s.index("!")].rstrip()
        if s.endswith("&"):
            cur += s[:-1].strip() + " "
            continue
        cur += s.strip()
        if cur:
            out.append(cur)
        cur = ""
    return out


def parse_module(text):
    lines = join_lines(text)
    # state fields
    fields_vec, fields_rc = [], []
    inside = False
    for s in lines:
        if s.startswith("type dagrt_state_type"):
            inside = True
            continue
        if inside and s.startswith("end type"):
            inside = False
        if inside and "pointer" in s and "::" in s:
            name = s.split("::")[1].strip()
            (fields_rc if s.startswith("integer") else fields_vec).append("dagrt_state%" + name)
    subs = {}
    cur = None
    for s in lines:
        m = re.match(r"subroutine (\w+)\s*\(", s)
        if m:
            cur = {"name": m.group(1), "lines": []}
            subs[m.group(1)] = cur
            continue
        if s.startswith("end subroutine"):
            cur = None
            continue
        if cur is not None:
            cur["lines"].append(s)
    prog = {"subs": {}, "vec": sorted(fields_vec), "rc": sorted(fields_rc), "locals": {}, "flags": {}, "warnings": []}
    for name, sub in subs.items():
        if name.startswith("dagrt_alloc_check_") or name.startswith("dagrt_deinit_") or name == "print_profile" \
                or name.startswith("drtf_"):
            continue
        ins, locs, flags = flatten(sub["lines"], set(fields_vec), set(fields_rc), prog["warnings"], name)
        prog["subs"][name] = ins
        prog["locals"][name] = locs
        prog["flags"][name] = flags
    return prog


def _lits(cond, counter):
    """Condition text -> literals; unknown atoms get unique names."""
    c = cond.strip()
    while c.startswith("(") and c.endswith(")") and _balanced(c[1:-1]):
        c = c[1:-1].strip()
    parts = [p.strip() for p in re.split(r"\.and\.", c)]
    lits = []
    for p in parts:
        pol = True
        while True:
            q = p.strip()
            while q.startswith("(") and q.endswith(")") and _balanced(q[1:-1]):
                q = q[1:-1].strip()
            if q.startswith(".not."):
                pol = not pol
                p = q[len(".not."):]
                continue
            p = q
            break
        if p == ".true.":
            continue
        if p == ".false.":
            lits.append(["$false", True])
            continue
        if re.fullmatch(r"[A-Za-z_][\w%]*", p):
            lits.append([p, pol])
        elif re.fullmatch(r"present\(\w+\)", p):
            continue                              # optional inputs are assumed present
        elif p.replace(" ", "") == "dagrt_ierr.ne.0":
            lits.append(["$false", True])         # allocation is assumed to succeed
        elif re.fullmatch(r"associated\(([\w%]+)\)", p):
            lits.append(["$assoc=" + re.fullmatch(r"associated\(([\w%]+)\)", p).group(1), pol])
        elif re.fullmatch(r"dagrt_state%dagrt_next_phase == dagrt_phase_\w+", p):
            lits.append(["$phase=" + p.split("dagrt_phase_")[1], pol])
        else:
            counter[0] += 1
            lits.append(["?%d:%s" % (counter[0], p[:30]), pol])
    return lits


def _balanced(s):
    d = 0
    for ch in s:
        if ch == "(":
            d += 1
        elif ch == ")":
            d -= 1
            if d < 0:
                return False
    return d == 0


def flatten(lines, fvec, frc, warnings, subname):
    vec_locals, rc_locals, logicals = set(), set(), set()
    for s in lines:
        if "::" in s and "pointer" in s:
            nm = s.split("::")[1].strip()
            if nm == "dagrt_state":
                continue
            (rc_locals if s.startswith("integer") else vec_locals).add(nm)
        m = re.match(r"logical (\w+)$", s)
        if m:
            logicals.add(m.group(1))
    vec = vec_locals | fvec
    rc = rc_locals | frc
    ins = []
    stack = []            # open constructs: ["if", [pending br index], [jmp-to-end indices]] / ["do", head, br]
    counter = [0]
    flags = set()
    label999 = []
    goto999 = []

    def mentions(s):
        return [v for v in sorted(vec, key=len, reverse=True) if re.search(r"(?<![\w%])" + re.escape(v) + r"(?![\w])", s)]

    for s in lines:
        m = re.match(r"if \((.*)\) then$", s)
        if m:
            lits = _lits(m.group(1), counter)
            flags.update(n for n, _p in lits if not n.startswith("$"))
            ins.append(["br", None, lits])
            stack.append(["if", len(ins) - 1, []])
            continue
        m = re.match(r"else if \((.*)\) then$", s)
        if m:
            top = stack[-1]
            ins.append(["jmp", None])
            top[2].append(len(ins) - 1)
            ins[top[1]][1] = len(ins) + 1
            lits = _lits(m.group(1), counter)
            flags.update(n for n, _p in lits if not n.startswith("$"))
            ins.append(["br", None, lits])
            top[1] = len(ins) - 1
            continue
        if s == "else":
            top = stack[-1]
            ins.append(["jmp", None])
            top[2].append(len(ins) - 1)
            ins[top[1]][1] = len(ins) + 1
            top[1] = None
            continue
        if s in ("end if", "endif"):
            top = stack.pop()
            if top[1] is not None:
                ins[top[1]][1] = len(ins) + 1
            for j in top[2]:
                ins[j][1] = len(ins) + 1
            continue
        m = re.match(r"do (\w+) = ", s)
        if m:
            counter[0] += 1
            ins.append(["br", None, [["?%d:loop-entered" % counter[0], True]]])
            flags.add("?%d:loop-entered" % counter[0])
            stack.append(["do", len(ins) - 1])
            continue
        if s in ("end do", "enddo"):
            # [br end if the loop is not entered] body [again: back to the body or fall through] end:
            top = stack.pop()
            head = top[1]
            # a body that only uses pointers is idempotent for the heap model: one pass stands for any number
            if any(i[0] not in ("use", "br", "jmp") for i in ins[head + 1:]):
                ins.append(["again", head + 2])
            ins[head][1] = len(ins) + 1
            continue
        if re.match(r"goto 999", s):
            ins.append(["jmp", None])
            goto999.append(len(ins) - 1)
            continue
        if s.startswith("999 continue"):
            label999.append(len(ins) + 1)
            continue
        m = re.match(r"call dagrt_alloc_check_\w+\((.*)\)$", s)
        if m:
            a = [x.strip() for x in m.group(1).split(",")]
            ins.append(["alloc", a[-2], a[-1]])
            continue
        m = re.match(r"call dagrt_deinit_\w+\((.*)\)$", s)
        if m:
            a = [x.strip() for x in m.group(1).split(",")]
            ins.append(["deinit", a[-2], a[-1]])
            continue
        m = re.match(r"call (dagrt_phase_func_\w+)\(", s)
        if m:
            ins.append(["call", m.group(1)])
            continue
        m = re.match(r"([\w%]+) => ([\w%]+)$", s)
        if m and (m.group(1) in vec or m.group(1) in rc):
            ins.append(["passign", m.group(1), m.group(2)])
            continue
        m = re.match(r"([\w%]+) = \1 \+ 1$", s)
        if m and m.group(1) in rc:
            ins.append(["incr", m.group(1)])
            continue
        m = re.match(r"([\w%]+) = 1$", s)
        if m and m.group(1) in rc:
            ins.append(["setrc", m.group(1)])
            continue
        m = re.match(r"nullify\(([\w%]+)\)$", s)
        if m:
            ins.append(["nullify", m.group(1)])
            continue
        m = re.match(r"allocate\(([\w%]+)(\(.*\))?, stat=dagrt_ierr\)$", s)
        if m:
            ins.append(["allocraw", m.group(1)] if m.group(1) in vec else ["allocrc", m.group(1)])
            continue
        m = re.match(r"dagrt_state%dagrt_next_phase = dagrt_phase_(\w+)$", s)
        if m:
            ins.append(["setphase", m.group(1)])
            continue
        if s == "stop":
            ins.append(["stop"])
            continue
        if s.startswith("write") or s.startswith("implicit") or "::" in s or re.match(r"(integer|real|logical|character|type)\b", s):
            continue
        hit = mentions(s)
        for v in hit:
            ins.append(["use", v])
        if not hit and any(r in s for r in rc):
            warnings.append("%s: unrecognised statement touching a counter: %s" % (subname, s))
    ins.append(["ret"])
    end = label999[0] if label999 else len(ins)
    for j in goto999:
        ins[j][1] = end
    for k, i in enumerate(ins):
        if i[0] in ("br", "jmp") and i[1] is None:
            warnings.append("%s: unresolved jump at %d" % (subname, k))
            i[1] = len(ins)
    return ins, {"vec": sorted(vec_locals), "rc": sorted(rc_locals)}, sorted(flags)


# ---- per-type storage routines (specs/TypeRoutines.tla) ---------------------------------------

def _path(expr):
    """'y%inner%v(10)' -> ['y', 'inner', 'v'] (array extents / indices dropped)."""
    return [re.sub(r"\(.*$", "", c).strip() for c in expr.strip().split("%")]


def type_routine(text, name):
    """Instruction list of the emitted subroutine `name` (dagrt_alloc_check_T / dagrt_deinit_T) over pointer paths:
      ["br", target, [kind, path, polarity]]  kind = "assoc" (associated(path)) | "rc1" (refcount == 1)
      ["jmp", target] ["allocate", path] ["deallocate", path] ["nullify", path]
      ["allocrc"] ["deallocrc"] ["setrc"] ["decrc"]
    Allocation-failure handling (if (dagrt_ierr.ne.0) ... stop) is skipped.  Returns (instructions, warnings)."""
    lines = join_lines(text)
    body, on = [], False
    for ln in lines:
        s = ln.strip()
        if re.match(r"subroutine %s\b" % re.escape(name), s):
            on = True
            continue
        if on and s.startswith("end subroutine"):
            break
        if on:
            body.append(s)
    ins, warnings, stack = [], [], []
    skip = 0
    for s in body:
        if skip:
            if re.match(r"if\b.*then$", s):
                skip += 1
            elif s in ("end if", "endif"):
                skip -= 1
            continue
        if s.startswith(("implicit none", "integer", "type(", "real", "use ")) or not s:
            continue
        if re.match(r"if \(dagrt_ierr\.ne\.0\) then$", s):
            skip = 1
            continue
        m = re.match(r"if \((\.not\.)?\s*associated\((.*)\)\) then$", s)
        if m:
            ins.append(["br", None, ["assoc", _path(m.group(2)), not m.group(1)]])
            stack.append([len(ins) - 1, []])
            continue
        m = re.match(r"if \(refcount\.(eq|ne)\.1\) then$", s)
        if m:
            ins.append(["br", None, ["rc1", [], m.group(1) == "eq"]])
            stack.append([len(ins) - 1, []])
            continue
        if s == "else":
            top = stack[-1]
            ins.append(["jmp", None])
            top[1].append(len(ins) - 1)
            ins[top[0]][1] = len(ins) + 1
            top[0] = None
            continue
        if s in ("end if", "endif"):
            top = stack.pop()
            if top[0] is not None:
                ins[top[0]][1] = len(ins) + 1
            for j in top[1]:
                ins[j][1] = len(ins) + 1
            continue
        m = re.match(r"allocate\((.*?)(, stat=\w+)?\)$", s)
        if m:
            ins.append(["allocrc"] if m.group(1).strip() == "refcount" else ["allocate", _path(m.group(1))])
            continue
        m = re.match(r"deallocate\((.*)\)$", s)
        if m:
            ins.append(["deallocrc"] if m.group(1).strip() == "refcount" else ["deallocate", _path(m.group(1))])
            continue
        m = re.match(r"nullify\((.*)\)$", s)
        if m:
            ins.append(["nullify", _path(m.group(1))])
            continue
        if s == "refcount = 1":
            ins.append(["setrc"])
            continue
        if s == "refcount = refcount - 1":
            ins.append(["decrc"])
            continue
        # a loop over the elements of a fixed-size array member: every element is treated alike and owns storage of its
        # own, so one representative element (the path without the index, see _path) stands for all of them
        if re.match(r"drtf_\w+ = \d+$", s) or re.match(r"do drtf_i\w+ = 1, drtf_\w+$", s) or s in ("end do", "enddo"):
            continue
        warnings.append("%s: %s" % (name, s))
    if stack:
        warnings.append("%s: unbalanced if" % name)
    return ins, warnings
