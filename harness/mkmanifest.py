"""Regenerates /verif/MANIFEST.json from the table below (one entry per claimed property)."""
import json
import os

VERIF = os.path.dirname(os.path.dirname(os.path.abspath(__file__)))

CHECKS = {}


def claim(pid, category, text, note, technique, ref=None):
    CHECKS[pid] = dict(category=category, text=text, note=note, technique=technique,
                       ref=ref or "DESIGN.md section 5, %s" % pid)


claim("C02", "model_checking",
      "TLC explores every linear extension x every guard valuation of the dependency edges exported "
      "from the real CodeBuilder, for every ProgGen behaviour up to the depth bound plus "
      "simulated/sampled longer programs, and compares with written order on Herbrand terms",
      "trusted: the harness's independent read/write traversal of statements (harness/progs.py); "
      "programs bounded by the alphabet and depth named in the evidence",
      "TLA+ contract spec (Sched.tla) model-checked by TLC over artefacts exported from the real "
      "builder; inputs are TLC-generated behaviours of ProgGen.tla and StmtGen.tla replayed into the code; "
      "as-coded dependency algorithm (Builder.tla) model-checked against the same contract, its edges compared "
      "exactly with the real builder's")

claim("C04", "model_checking",
      "as-coded model of ExecutionController (all DAGs, guard valuations, request scripts, cut points and "
      "every iteration order of the unordered containers, N<=4/5) model-checked against the visit "
      "contract; callback sequences recorded from the real controller on enumerated and random graphs "
      "validated by TLC against the same contract; liveness of the as-coded model under weak fairness (a started "
      "step ends, all steps are taken, every visit decreases the unvisited set; no state constraint, N<=4/5)",
      "trusted: the recording target and the Python-side graph enumeration; real set iteration orders "
      "are only sampled (id spellings), all orders are covered in the as-coded model, whose conformance "
      "with the recorded plans is checked and reported as drift",
      "TLA+ contract spec (ControllerBase.tla) + as-coded spec (Controller.tla) model-checked by TLC; "
      "trace validation of the real controller's callbacks (TraceController.tla)")

claim("C06", "model_checking",
      "every tree up to the token bound (TLC-enumerated behaviours of TreeGen.tla) plus simulated deeper "
      "ones is fed to the real simplify_ast; TLC judges each input/output pair under every valuation of "
      "the condition flags (same executed leaf sequence, no exception)",
      "trusted: the tree exporter/builder of the harness; conditions restricted to flags, negations and "
      "constants as the property states",
      "TLA+ contract spec (Simplify.tla over Tree.tla) model-checked by TLC over input/output pairs of "
      "the real simplify_ast; inputs are TLC-generated behaviours of TreeGen.tla")

claim("C05", "model_checking",
      "every phase up to the size bound (TLC-enumerated behaviours of PhaseGen.tla: all dependency sets, "
      "guards, loop nests, no-ops) and phases built by the real CodeBuilder are lowered by the real "
      "create_ast_from_phase in several container orders and hash seeds; TLC judges each tree under every "
      "guard valuation (exactly the enabled statements once, declared loops, dependency order, order "
      "independence)",
      "trusted: tree exporter; guards are flags constant during a pass; hash seeds sample set orders",
      "TLA+ contract spec (Lower.tla over Tree.tla) model-checked by TLC over trees exported from the "
      "real lowering; inputs are TLC-generated behaviours of PhaseGen.tla / ProgGen.tla")

claim("C10", "model_checking",
      "every method description of the MethodGen space (all edge sets on <=3/4 statements incl. self-loops "
      "and cycles, dangling and cross-phase edges, switch targets, flag writers) plus random larger ones is "
      "given to the real verify_code and, when accepted, to the interpreter and both generators; TLC "
      "evaluates the specification's own WellFormed predicate and judges the recorded outcomes",
      "trusted: construction of real DAGCode objects from the generated description; timeouts (10 s) stand "
      "for 'hangs'",
      "TLA+ contract spec (Verify.tla: WellFormed, AcceptIff, DocumentedError, ConsumersSafe) evaluated by "
      "TLC over outcomes recorded from the real verify_code; inputs are TLC-generated behaviours of "
      "MethodGen.tla")

claim("C14", "model_checking",
      "the outcome table of the real unify over the 9-kind universe is recorded and TLC checks idempotence, "
      "commutativity, associativity (all 729 triples) and confluence of the table-update rule on it; the "
      "real SymbolKindFinder is run on every presentation (statement order, phase order, hash seeds) of "
      "every subset of a statement catalogue and TLC requires all outcomes of one program to coincide",
      "trusted: kind universe chosen by the harness; statement catalogue; hash seeds sample set orders; "
      "the update rule in Kinds.tla is an as-coded model (its drift from the code would show in the order "
      "part, which runs the real code)",
      "TLA+ spec of the kind laws (Kinds.tla) model-checked by TLC on the recorded unify table; "
      "self-composition spec (SelfComp.tla) over recorded runs of the real kind inference")

claim("C13", "model_checking",
      "every lookup history within the bounds (TLC-enumerated behaviours of NameGen.tla over an adversarial "
      "key pool, all namespaces, echo steps) plus simulated longer ones is replayed into the real Python and "
      "Fortran name managers; TLC validates each recorded history against the abstract name-map contract "
      "(Legal, Injective under the target's comparison, Stable, NotReserved, StorageClass)",
      "trusted: the lexical rules written in Names.tla (ASCII identifiers, Fortran 63-character limit, "
      "case folding); reserved identifiers are collected from the generator source at check time",
      "trace validation of the real name managers against a TLA+ contract spec (Names.tla); histories are "
      "TLC-generated behaviours of NameGen.tla")

claim("C20", "model_checking",
      "every fragment sequence up to the bound (TLC-enumerated) in three statement templates, several "
      "widths, indentation levels and both padding functions is wrapped by the real wrap_line; TLC judges "
      "the output at character level (tokens preserved, no string split, width, continuation form, Python "
      "syntax tree unchanged)",
      "trusted: lexeme definition in Wrap.tla; ast.parse as the observation of Python syntax trees; no "
      "escaped quotes in the catalogue",
      "TLA+ contract spec (Wrap.tla, character-level scanner) evaluated by TLC over outputs of the real "
      "wrap_line; inputs are TLC-generated behaviours of WrapGen.tla")

claim("C08", "model_checking",
      "every statement the real CodeBuilder produces for the ProgGen behaviours over a typed catalogue "
      "(subscripts on both sides, loop nests with variable bounds, guards, keyword arguments, conditional "
      "and short-circuit expressions) is executed by the real interpreter on an instrumented store in "
      "several stores; TLC evaluates the static access semantics of Access.tla on the exported expression "
      "trees and checks declared sets against static and observed accesses and identity-mapping stability",
      "trusted: the recording store (dict subclass), the expression exporter; AssignImplicit not executed",
      "TLA+ static-semantics spec (Access.tla over Expr.tla) evaluated by TLC against declared sets and "
      "accesses recorded from the real interpreter; statements come from TLC-generated ProgGen behaviours")

claim("C01", "model_checking",
      "every ProgGen behaviour up to the depth bound over a typed call alphabet (plus simulated and sampled "
      "longer programs, several phases, failures, switches, raises) is run through the real interpreter and "
      "the real generated Python class for sampled initial states and run bounds; TLC validates both "
      "recorded event traces (events, persistent state after every step, next phase, escaping error) "
      "against the reference semantics of Stepper.tla, which executes the builder calls in written order",
      "trusted: recorder normalisation of values (integral floats = ints), the fixed function table shared "
      "by harness/stepper.py and Expr.tla; integer-valued alias-free fragment; out-of-fragment cases are "
      "counted and not judged",
      "trace validation of two real back ends against an executable TLA+ reference semantics "
      "(Stepper.tla over Expr.tla) with TLC; programs are TLC-generated behaviours of ProgGen.tla")

claim("C11", "fault_enumeration",
      "for every generated program every (tagged call site, occurrence) reached in the fault-free run is "
      "made to raise on the real interpreter and the real generated class; TLC validates the run up to the "
      "exception against Stepper.tla extended with a dependence (taint) analysis of the written program "
      "(same exception object, no temporaries, next phase, each persistent variable at its pre-step value "
      "or at a value assigned independently of the failed call) and validates the continuation on the same "
      "object and on a fresh stepper started in the observed state against the reference",
      "trusted: fault injection wrapper and observation of temporaries (context keys / new instance "
      "attributes); the allowed post-fault set is the property's (loose) one",
      "fault enumeration over call sites with trace validation against the TLA+ reference (Stepper.tla) "
      "by TLC; programs are TLC-generated behaviours of ProgGen.tla")

claim("C16", "model_checking",
      "pairs of builder programs (TLC-generated, overlapping temporaries, flags and statement ids) are fused "
      "by the real fuse_two_dags under four renaming predicates, half of them after a history of other public queries "
      "(get_variables with and without function symbols) on equal expressions; TLC checks the fused statements against a "
      "witness (unique ids, dependencies intact, renaming a consistent injective function incl. guards, renamed "
      "exactly as asked) and executes the fused phase in every admissible order x guard valuation requiring each "
      "method's persistent results to equal what its own statements produce",
      "trusted: witness construction and the exporter of variable occurrences/skeletons; dynamic part only for "
      "pairs without non-assignments and with disjoint persistent footprints",
      "TLA+ contract specs (Fuse.tla static, SchedGroups.tla over Sched.tla dynamic) model-checked by TLC over "
      "statements exported from the real fuse_two_dags; programs are TLC-generated ProgGen behaviours")

claim("C19", "model_checking",
      "every expression up to the node bound (TLC-enumerated behaviours of ExprGen.tla, arithmetic and boolean, "
      "plain and with backtick-quoted names) plus simulated larger ones is printed by the real str() and parsed "
      "back by the real parse(); TLC judges each answer (parses, prints identically, same variables, same value "
      "under all small valuations and two function interpretations) against the expression semantics of Expr.tla",
      "trusted: conversion between pymbolic objects and the interchange format; values compared on integers and "
      "booleans only; the printer itself lives in pymbolic (findings there are recorded, not fixed)",
      "TLA+ contract spec (ExprContracts.tla over Expr.tla) evaluated by TLC over answers of the real "
      "printer/parser; inputs are TLC-generated behaviours of ExprGen.tla")

claim("C18", "model_checking",
      "every compound expression up to the node bound over sums, products, powers and calls (TLC-enumerated) plus "
      "simulated larger ones with quotients and subscripts is given to the real collapse_constants with every subset "
      "of its variables declared free, and with each of its function symbols declared free; TLC judges each answer (same value with the hoisted assignments carried out, "
      "no free variable in a hoisted term, every new variable assigned once, no exception)",
      "trusted: expression conversion; integer/boolean value comparison; expression classes restricted to those the "
      "property names",
      "TLA+ contract spec (ExprContracts.tla over Expr.tla) evaluated by TLC over answers of the real "
      "collapse_constants; inputs are TLC-generated behaviours of ExprGen.tla")

claim("C17", "model_checking",
      "every template up to the node bound over free variables p, q (TLC-enumerated) is matched by the real match() "
      "against instances of itself (plain, shuffled, identity operand dropped), unrelated expressions and other "
      "templates' instances, with two free-variable sets and consistent/contradicting pre-matches; TLC judges every "
      "returned substitution (binds only free variables, agrees with the pre-match, template[sigma] has the value of "
      "the target under all small valuations and two function interpretations; otherwise ValueError)",
      "trusted: expression conversion and the harness's own substitution used to build targets; values on integers; "
      "two interpretations stand for 'all interpretations'",
      "TLA+ contract spec (ExprContracts.tla: Subst/Eval of Expr.tla) evaluated by TLC over answers of the real "
      "match(); templates are TLC-generated behaviours of ExprGen.tla")

claim("C07", "translation_validation",
      "phases built by the real CodeBuilder for TLC-generated programs of the 'rewrite' profile are lowered by the "
      "real create_ast_from_phase and rewritten by each real pass alone and by the four in the Fortran generator's "
      "order; TLC runs the tree before and after top to bottom on every small input valuation and compares final "
      "values of all original variables, the multiset of external calls, definedness of every read and uniqueness "
      "of statement ids",
      "trusted: tree exporter; fixed integer interpretation of function symbols; statement conditions are part of "
      "the tree semantics",
      "translation validation of the real rewriting passes against an executable TLA+ tree semantics (Rewrite.tla "
      "over Expr.tla) with TLC; programs are TLC-generated behaviours of ProgGen.tla")

claim("C09", "model_checking",
      "for every TLC-generated program of the 'kinds' profile (powers, quotients, comparisons, min/max, subscripts, "
      "every exercisable built-in on scalars, arrays and user types, a registered right-hand-side function) the real "
      "infer_kinds gives the table and the real interpreter runs a step on a store that records the class of every "
      "value; TLC walks the store events and requires the kind of the variable to admit the value, and every assigned "
      "variable to have a kind",
      "trusted: value classification (tagged ndarray subclass for user types); one input point per program; Admits "
      "is lenient where the property is silent",
      "TLA+ contract spec (KindValues.tla) evaluated by TLC over kind tables and store events recorded from the real "
      "inference and interpreter; programs are TLC-generated behaviours of ProgGen.tla")

claim("C15", "exploration",
      "every configuration of the grid (hash seeds x container presentations x generation history x target) is "
      "executed in subprocesses on programs of the 'fortran' profile; the Python text, the Fortran text and the "
      "interpreter's observable results are recorded chunk by chunk and TLC steps all runs of one program in lock "
      "step (self-composition), reporting the first differing chunk",
      "hash seeds only sample set iteration orders; the specification has no model of the generators -- it "
      "contributes the lock-step comparison; programs are sampled",
      "self-composition spec (SelfComp.tla, ObservationalDeterminism) checked by TLC over outputs recorded from "
      "the real generators in enumerated configurations")

claim("C03", "translation_validation",
      "TLC-generated programs of the 'fortran' profile are emitted by the real Fortran generator, compiled with "
      "gfortran with a generated driver that prints every field of the state type after each run() call, and stepped "
      "through the real interpreter; TLC validates both traces against Stepper.tla in slot mode (persistent "
      "variables, return slots, next phase after every call; compile failures and run-time errors are rejections)",
      "trusted: driver generation and output parsing; exact (integer-valued) arithmetic only; kinds of persistent "
      "inputs are fixed by assignments in a second phase (methods whose inputs have no inferable kind are outside the "
      "supported subset)",
      "translation validation: compiled output of the real generator vs the executable TLA+ reference (Stepper.tla, "
      "slot mode) judged by TLC; programs are TLC-generated behaviours of ProgGen.tla")

claim("C12", "model_checking",
      "for sampled programs of the 'fortran' profile with user-type temporaries, moves, guards and early exits the "
      "module emitted by the real generator is parsed into its memory-management skeleton; TLC executes the skeleton "
      "on a heap model of the copy-on-write reference counting for initialize, up to 2/3 run calls and shutdown under "
      "every valuation of the branch conditions (released once, no use of null/undefined/released storage, nothing "
      "left allocated); a model violation is reported only when the compiled module shows an error of the same "
      "class under AddressSanitizer/LeakSanitizer on a grid of guard inputs",
      "trusted: the skeleton extractor (fails loudly on unknown counter statements; clean programs are spot-checked "
      "under the sanitizer and an unpredicted report is a machinery failure); allocation never fails; programs are "
      "sampled",
      "TLA+ heap model (RefCount.tla) model-checked by TLC over the instruction skeleton extracted from the real "
      "generator's output; counterexample classes confirmed by replaying input grids on the sanitizer-built binary; "
      "trace validation (TraceRefCount.tla) of marker logs of the compiled module binds extractor and model to the "
      "binary; the emitted per-type allocation-check / release routines are run on an object model (TypeRoutines.tla) "
      "for structured user types")

NOT_YET = "check not built yet (work in progress, see DESIGN.md section 11)"
NOT_APPLICABLE = {}

ALL = ["C%02d" % i for i in range(1, 21)]


def main():
    checks = []
    for pid in ALL:
        if pid not in CHECKS:
            continue
        c = CHECKS[pid]
        checks.append({
            "property_id": pid,
            "quick_cmd": "./check %s --tier quick" % pid,
            "thorough_cmd": "./check %s --tier thorough" % pid,
            "evidence_file": "evidence/%s.json" % pid,
            "replay_cmd_template": "./check %s --replay {path}" % pid,
            "engine": "tlc",
            "level_claimed": {"category": c["category"], "text": c["text"], "design_ref": c["ref"]},
            "level_note": c["note"],
            "technique": c["technique"],
        })
    na = [{"property_id": pid, "reason": NOT_APPLICABLE.get(pid, NOT_YET)}
          for pid in ALL if pid not in CHECKS]
    man = {
        "version": 1,
        "setup_cmd": "./check setup",
        "hooks": {
            "guard": "DAGRT_VERIF",
            "enable": "no source hooks: every observation point is a public attribute, a callback of "
                      "the target object, or lies in generated text; checks import dagrt from /repo's "
                      "working tree (DAGRT_REPO overrides)",
            "baseline_off_cmd": "cd /repo && env -u DAGRT_VERIF /venv/bin/python -m pytest -ra -q "
                                "-p no:cacheprovider --timeout=900 --continue-on-collection-errors",
            "source_commits": [],
            "add_only": True,
        },
        "engines": [{
            "name": "tlc", "path": "/opt/veriftools/tla/tla2tools.jar",
            "serves_properties": sorted(CHECKS),
            "kind_free_text": "explicit-state model checker; judges artefacts/traces exported from the "
                              "real code against the contract specifications in specs/; generates the "
                              "input behaviours (ProgGen and the per-property generators)",
        }],
        "checks": checks,
        "not_applicable": na,
        "notes": "Every verdict is produced by TLC from a specification in specs/. known_findings.json "
                 "lists genuine defects (open ones are reported as KNOWN-FINDING, fixed ones suppress "
                 "nothing).",
    }
    with open(os.path.join(VERIF, "MANIFEST.json"), "w") as f:
        json.dump(man, f, indent=1)
    print("MANIFEST.json: %d checks, %d not claimed" % (len(checks), len(na)))


if __name__ == "__main__":
    main()
