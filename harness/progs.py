"""Builder programs in the interchange format: replay into the real CodeBuilder and export of
what the real builder produced (statements, dependency edges, guards) plus the harness's own,
independent account of what each statement reads and writes."""

from . import exprs

PERSISTENT_PREFIXES = ("<state>", "<p>", "<ret_time_id>", "<ret_time>", "<ret_state>")


def is_persistent(name):
    return name in ("<t>", "<dt>") or name.startswith(PERSISTENT_PREFIXES)


class VerifError(Exception):
    """Raised by Raise statements of generated programs."""


class VerifError2(Exception):
    pass


ERROR_KINDS = {"VerifError": VerifError, "VerifError2": VerifError2}


def _subst_names(obj, names):
    """Replace placeholders "$f0" (results of earlier fresh_var_name calls) in names/expressions."""
    if isinstance(obj, str):
        return names.get(obj, obj)
    if isinstance(obj, list):
        return [_subst_names(o, names) for o in obj]
    return obj


def call_names(call):
    """User-supplied variable names occurring in one builder call (harness's own traversal)."""
    out = set()
    op = call["op"]
    if op == "assign":
        out.add(call["lhs"])
        for s in call.get("sub", []):
            exprs.variables(s, out)
        exprs.variables(call["rhs"], out)
        for ident, lo, hi in call.get("loops", []):
            out.add(ident)
            exprs.variables(lo, out)
            exprs.variables(hi, out)
    elif op == "acall":
        out.update(call["lhs"])
        for a in call["args"]:
            exprs.variables(a, out)
        for _k, a in call["kw"]:
            exprs.variables(a, out)
    elif op == "yield":
        exprs.variables(call["e"], out)
        exprs.variables(call["time"], out)
    elif op == "implicit":
        out.update(call["lhs"])
        out.update(call["solve"])
        for a in call["exprs"]:
            exprs.variables(a, out)
        for _k, a in call["params"]:
            exprs.variables(a, out)
    elif op == "if":
        exprs.variables(call["c"], out)
    return out


def replay_calls(name, calls):
    """Drive a real CodeBuilder through the call sequence.  Returns (builder, info) where info
    lists, per call, the index range of statements it created and the fresh names handed out."""
    from dagrt.language import CodeBuilder
    cb = CodeBuilder(name)
    stack = []
    names = {}
    info = {"fresh": [], "user_before": [], "stmt_of_call": [], "resolved": []}
    seen_user = set()
    for call in calls:
        call = {k: (_subst_names(v, names) if k != "as" else v) for k, v in call.items()}
        info["resolved"].append(call)
        op = call["op"]
        n0 = len(cb.statements)
        if op == "assign":
            lhs = exprs.from_json(["v", call["lhs"]])
            if call.get("sub"):
                sub = tuple(exprs.from_json(s) for s in call["sub"])
                lhs = lhs[sub if len(sub) != 1 else sub[0]]
            loops = [(i, exprs.from_json(lo), exprs.from_json(hi)) for i, lo, hi in call.get("loops", [])]
            rhs = exprs.from_json(call["rhs"])
            cb.assign(lhs, rhs, loops=loops)
        elif op == "acall":
            import pymbolic.primitives as p
            e = exprs.from_json(["call", ["v", call["f"]], call["args"], call["kw"]])
            lhss = tuple(p.Variable(a) for a in call["lhs"])
            cb.assign(lhss, e)
        elif op == "implicit":
            cb.assign_implicit(tuple(call["lhs"]), tuple(call["solve"]), tuple(exprs.from_json(e) for e in call["exprs"]),
                               {k: exprs.from_json(v) for k, v in call["params"]}, "solver")
        elif op == "yield":
            cb.yield_state(exprs.from_json(call["e"]), call["comp"], exprs.from_json(call["time"]),
                           call["tid"])
        elif op == "fail":
            cb.fail_step()
        elif op == "raise":
            cb.raise_(ERROR_KINDS[call["kind"]], call.get("msg"))
        elif op == "switch":
            cb.switch_phase(call["to"])
        elif op == "restart":
            cb.restart_step()
        elif op == "if":
            before = set(seen_user)
            if call.get("form") == "str3" and call["c"][0] == "cmp":
                # the three-argument form of the API with textual operands: if_("a", "<", "b")
                cm = cb.if_(str(exprs.from_json(call["c"][2])), call["c"][1], str(exprs.from_json(call["c"][3])))
            elif call.get("form") == "str1":
                cm = cb.if_(str(exprs.from_json(call["c"])))
            else:
                cm = cb.if_(exprs.from_json(call["c"]))
            cm.__enter__()
            stack.append(cm)
            flag = cb.statements[-1].lhs.name
            info["fresh"].append({"name": flag, "before": sorted(before | call_names(call)), "how": "if_"})
        elif op == "else":
            cm = cb.else_()
            cm.__enter__()
            stack.append(cm)
        elif op in ("endif", "endelse"):
            stack.pop().__exit__(None, None, None)
        elif op == "fresh":
            got = cb.fresh_var_name(call.get("prefix", "temp"))
            names[call["as"]] = got
            info["fresh"].append({"name": got, "before": sorted(seen_user), "how": "fresh_var_name"})
        else:
            raise ValueError("unknown builder call %r" % (call,))
        seen_user |= call_names(call)
        info["stmt_of_call"].append(list(range(n0, len(cb.statements))))
    while stack:
        stack.pop().__exit__(None, None, None)
    info["names"] = names
    return cb, info


def guard_of(cond):
    """condition -> list of [flag, polarity] when it is a conjunction of (negated) variables."""
    import pymbolic.primitives as p
    if cond is True:
        return []
    if isinstance(cond, p.Variable):
        return [[cond.name, True]]
    if isinstance(cond, p.LogicalNot):
        inner = cond.child
        pol = False
        while isinstance(inner, p.LogicalNot):
            inner = inner.child
            pol = not pol
        if isinstance(inner, p.Variable):
            return [[inner.name, pol]]
        return None
    if isinstance(cond, p.LogicalAnd):
        out = []
        for c in cond.children:
            g = guard_of(c)
            if g is None:
                return None
            out.extend(g)
        return out
    return None


def stmt_kind(stmt):
    return type(stmt).__name__


def true_access(stmt):
    """The harness's own account of a statement: (ordered true reads of the body, writes,
    loop identifiers).  Guards are reported separately.  A subscripted or looped assignment
    updates its target in place, so the old value of the target is read as well."""
    from dagrt.language import Assign, AssignFunctionCall, AssignImplicit, YieldState
    reads, writes, loopvars = [], [], []

    def add(names):
        for n in sorted(names):
            if n not in reads:
                reads.append(n)

    if isinstance(stmt, Assign):
        loopvars = [ident for ident, _, _ in stmt.loops]
        for ident, lo, hi in stmt.loops:
            add(exprs.variables(exprs.to_json(lo)))
            add(exprs.variables(exprs.to_json(hi)))
        add(exprs.variables(exprs.to_json(stmt.rhs)))
        sub = stmt.assignee_subscript
        if sub:
            if not isinstance(sub, tuple):
                sub = (sub,)
            for s in sub:
                add(exprs.variables(exprs.to_json(s)))
            add({stmt.assignee})
        elif stmt.loops:
            # a zero-trip loop leaves the old value: the result depends on it
            add({stmt.assignee})
        writes = [stmt.assignee]
        reads = [r for r in reads if r not in loopvars]
    elif isinstance(stmt, AssignFunctionCall):
        for a in stmt.parameters:
            add(exprs.variables(exprs.to_json(a)))
        for _k, a in sorted(dict(stmt.kw_parameters).items()):
            add(exprs.variables(exprs.to_json(a)))
        writes = list(stmt.assignees)
    elif isinstance(stmt, AssignImplicit):
        for e in stmt.expressions:
            add(exprs.variables(exprs.to_json(e)) - set(stmt.solve_variables))
        for _k, e in sorted(stmt.other_params.items()):
            add(exprs.variables(exprs.to_json(e)))
        writes = list(stmt.assignees)
    elif isinstance(stmt, YieldState):
        add(exprs.variables(exprs.to_json(stmt.expression)))
        add(exprs.variables(exprs.to_json(stmt.time)))
    return reads, writes, loopvars


def body_text(stmt):
    """Printed statement without its guard and id: identifies 'what is computed'."""
    return str(stmt.copy(condition=True)) if hasattr(stmt, "condition") else str(stmt)


def export_statements(statements):
    """Statements (in written order) of a real builder / phase -> records for the specs."""
    from dagrt.language import FailStep, Raise, SwitchPhase, YieldState
    stmts = list(statements)
    index = {s.id: k + 1 for k, s in enumerate(stmts)}
    out = []
    guard_vars = set()
    for s in stmts:
        g = guard_of(getattr(s, "condition", True))
        if g:
            guard_vars.update(v for v, _ in g)
    for k, s in enumerate(stmts):
        reads, writes, loopvars = true_access(s)
        cond = getattr(s, "condition", True)
        g = guard_of(cond)
        rec = {
            "id": s.id,
            "idx": k + 1,
            "kind": stmt_kind(s),
            "deps": sorted(index[d] for d in s.depends_on if d in index),
            "dangling": sorted(d for d in s.depends_on if d not in index),
            "guard": g if g is not None else [],
            "guard_ok": g is not None,
            "guard_expr": exprs.to_json(cond),
            "body": body_text(s),
            "treads": reads,
            "twrites": writes,
            "loopvars": loopvars,
            "dreads": sorted(s.get_read_variables()),
            "dwrites": sorted(s.get_written_variables()),
            "flag": any(w in guard_vars for w in writes),
            "halt": isinstance(s, (FailStep, Raise, SwitchPhase)),
            "event": isinstance(s, YieldState),
        }
        out.append(rec)
    return out


def all_vars(stmt_recs):
    names = []
    for r in stmt_recs:
        for n in list(r["treads"]) + list(r["twrites"]) + [v for v, _ in r["guard"]]:
            if n not in names:
                names.append(n)
    return [{"n": n, "p": is_persistent(n)} for n in sorted(names)]


def show_call(c):
    op = c["op"]
    if op == "assign":
        s = c["lhs"]
        if c.get("sub"):
            s += "[%s]" % ", ".join(exprs.show(x) for x in c["sub"])
        s += " <- " + exprs.show(c["rhs"])
        for i, lo, hi in c.get("loops", []):
            s += " [%s=%s..%s]" % (i, exprs.show(lo), exprs.show(hi))
        return s
    if op == "acall":
        a = [exprs.show(x) for x in c["args"]] + ["%s=%s" % (k, exprs.show(v)) for k, v in c["kw"]]
        return "%s <- %s(%s)" % (", ".join(c["lhs"]), c["f"], ", ".join(a))
    if op == "implicit":
        return "%s <- solve %s: %s = 0 (%s)" % (", ".join(c["lhs"]), ", ".join(c["solve"]), "; ".join(exprs.show(e) for e in c["exprs"]),
                                                ", ".join("%s=%s" % (k, exprs.show(v)) for k, v in c["params"]))
    if op == "yield":
        return "yield %s as %s at %s (%s)" % (exprs.show(c["e"]), c["comp"], exprs.show(c["time"]), c["tid"])
    if op == "if":
        return "if %s:" % exprs.show(c["c"])
    if op == "switch":
        return "switch %s" % c["to"]
    if op == "raise":
        return "raise %s" % c["kind"]
    if op == "fresh":
        return "%s = fresh(%s)" % (c["as"], c.get("prefix", "temp"))
    return op


def show_prog(calls):
    return "; ".join(show_call(c) for c in calls)


def stmt_trees(stmt):
    """Expression trees of a real statement, for the specifications that evaluate statements
    (Access, Stepper, Rewrite)."""
    from dagrt.language import (Assign, AssignFunctionCall, AssignImplicit, FailStep, Raise, SwitchPhase,
                                YieldState)
    rec = {"kind": stmt_kind(stmt), "guard": exprs.to_json(getattr(stmt, "condition", True)),
           "lhs": [], "sub": [], "rhs": ["none"], "loops": [], "args": [], "kw": [], "time": ["none"],
           "f": "", "comp": "", "tid": "", "to": "", "err": ""}
    if isinstance(stmt, Assign):
        rec["lhs"] = [stmt.assignee]
        sub = stmt.assignee_subscript
        if sub and not isinstance(sub, tuple):
            sub = (sub,)
        rec["sub"] = [exprs.to_json(s) for s in (sub or ())]
        rec["rhs"] = exprs.to_json(stmt.rhs)
        rec["loops"] = [[i, exprs.to_json(lo), exprs.to_json(hi)] for i, lo, hi in stmt.loops]
    elif isinstance(stmt, AssignFunctionCall):
        rec["lhs"] = list(stmt.assignees)
        rec["f"] = stmt.function_id
        rec["args"] = [exprs.to_json(a) for a in stmt.parameters]
        rec["kw"] = [[k, exprs.to_json(v)] for k, v in sorted(dict(stmt.kw_parameters).items())]
    elif isinstance(stmt, AssignImplicit):
        # the equations as positional "arguments", the other parameters as keywords, the unknowns in "sub"
        rec["lhs"] = list(stmt.assignees)
        rec["args"] = [exprs.to_json(e) for e in stmt.expressions]
        rec["kw"] = [[k, exprs.to_json(v)] for k, v in sorted(dict(stmt.other_params).items())]
        rec["sub"] = [["v", n] for n in stmt.solve_variables]
    elif isinstance(stmt, YieldState):
        rec["rhs"] = exprs.to_json(stmt.expression)
        rec["time"] = exprs.to_json(stmt.time)
        rec["comp"] = stmt.component_id
        rec["tid"] = stmt.time_id
    elif isinstance(stmt, SwitchPhase):
        rec["to"] = stmt.next_phase
    elif isinstance(stmt, Raise):
        rec["err"] = stmt.error_condition.__name__
    elif isinstance(stmt, FailStep):
        pass
    return rec
