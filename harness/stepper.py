"""Running methods through the real steppers (interpreter, generated Python class) and recording
what the property talks about: events, persistent state after every step, next phase, escaping
exceptions.  No source hooks: everything is read from public attributes."""

import numbers

import numpy as np

from . import exprs, progs

# -- the fixed table of function meanings (mirrors Apply in specs/Expr.tla) ------------------


def func_f(x, k=0, m=0):
    return 2 * x + k + 5 * m + 1


def func_g(x, y):
    return x * y - x + 3


def func_g2(x):
    return x + 1, 3 * x


FUNCS = {"<func>f": func_f, "<func>g": func_g, "<func>g2": func_g2}


class FaultInjected(Exception):
    """Raised by an instrumented user function at the scripted call (C11)."""


# A user function may raise anything; the library's own handlers (KeyError for unknown names, ValueError, ...) must not
# mistake the user's exception for one of theirs.  The class is chosen by the fault point.
FAULT_CLASSES = [FaultInjected] + [type("Fault" + b.__name__, (FaultInjected, b), {}) for b in (
    KeyError, ValueError, TypeError, IndexError, AttributeError, ZeroDivisionError, NameError, LookupError, ArithmeticError)]


def make_funcs(fault=None, log=None):
    """User functions with a call log and optional fault injection.  A fault point is (tag,
    occurrence): the occurrence-th call of <func>f whose keyword argument k equals tag raises.
    Tags identify call sites independently of the order in which a back end schedules calls."""
    counts = {}
    out = dict(FUNCS)
    state = {"raised": None}

    def f(x, k=0, m=0):
        counts[k] = counts.get(k, 0) + 1
        if log is not None:
            log.append(("<func>f", k, counts[k]))
        if fault is not None and tuple(fault) == (k, counts[k]):
            exc = FAULT_CLASSES[(k + counts[k]) % len(FAULT_CLASSES)]("<func>f k=%d #%d" % (k, counts[k]))
            state["raised"] = exc
            raise exc
        return func_f(x, k, m)

    out["<func>f"] = f
    return out, state


# -- values --------------------------------------------------------------------------------

def norm(v):
    """Run-time value -> tagged JSON value."""
    if v is None:
        return ["n"]
    if isinstance(v, (bool, np.bool_)):
        return ["b", bool(v)]
    if isinstance(v, numbers.Integral):
        return ["i", int(v)] if abs(int(v)) < 2 ** 30 else ["x", repr(v)]
    if isinstance(v, numbers.Real):
        f = float(v)
        if f == f and abs(f) < 2 ** 30 and f.is_integer():
            return ["i", int(f)]
        return ["x", repr(v)]
    if isinstance(v, np.ndarray) and v.ndim == 1:
        out = []
        for x in v.tolist():
            n = norm(x)
            if n[0] != "i":
                return ["x", repr(v)]
            out.append(n[1])
        return ["a", out]
    if isinstance(v, np.ndarray) and v.ndim == 0:
        return norm(v.item())
    return ["x", repr(v)[:60]]


def to_runtime(tv):
    if tv[0] == "i":
        return tv[1]
    if tv[0] == "b":
        return tv[1]
    if tv[0] == "a":
        return np.array(tv[1], dtype=np.int64)
    if tv[0] == "n":
        return None
    raise ValueError(tv)


# -- methods -------------------------------------------------------------------------------

def persistent_names(method):
    names = {"<t>", "<dt>"}
    for ph in method["phases"]:
        for c in ph["calls"]:
            names |= {n for n in progs.call_names(c) if progs.is_persistent(n)}
    return sorted(names)          # only names the method itself mentions (a generated class knows no others)


def resolve_fresh(method):
    """Replace $f placeholders by the names the real builder hands out, so that the method
    description given to TLC carries concrete names."""
    out = {"phases": [], "initial": method["initial"]}
    for ph in method["phases"]:
        _cb, info = progs.replay_calls(ph["name"], ph["calls"])
        calls = info["resolved"]           # names substituted as they were current at each call
        out["phases"].append({"name": ph["name"], "next": ph["next"], "calls": calls})
    return out


def build_code(method):
    from dagrt.language import DAGCode
    phases = []
    for ph in method["phases"]:
        cb, _ = progs.replay_calls(ph["name"], ph["calls"])
        phases.append(cb.as_execution_phase(ph["next"]))
    return DAGCode.from_phases_list(phases, method["initial"])


def tlc_method(method, pnames):
    """Method description in the shape specs/Stepper.tla reads (uniform records per op)."""
    phs = []
    for ph in method["phases"]:
        calls = []
        for c in ph["calls"]:
            op = c["op"]
            if op == "assign":
                calls.append({"op": op, "lhs": c["lhs"], "sub": c.get("sub", []), "rhs": c["rhs"],
                              "loops": c.get("loops", [])})
            elif op == "acall":
                calls.append({"op": op, "lhs": c["lhs"], "f": c["f"], "args": c["args"], "kw": c["kw"]})
            elif op == "yield":
                calls.append({"op": op, "e": c["e"], "time": c["time"], "tid": c["tid"], "comp": c["comp"],
                              "slots": ["<ret_state>" + c["comp"], "<ret_time>" + c["comp"], "<ret_time_id>" + c["comp"]]})
            elif op == "if":
                calls.append({"op": op, "c": c["c"]})
            elif op == "switch":
                calls.append({"op": op, "to": c["to"]})
            elif op == "raise":
                calls.append({"op": op, "kind": c["kind"]})
            else:
                calls.append({"op": op})
        phs.append({"name": ph["name"], "next": ph["next"], "calls": calls})
    return {"phases": phs, "initial": method["initial"], "pnames": pnames}


# -- recorders -----------------------------------------------------------------------------

class InterpBackend:
    name = "interp"

    def __init__(self, code, funcs):
        from dagrt.exec_numpy import NumpyInterpreter
        self.s = NumpyInterpreter(code, funcs)

    def set_up(self, t, dt, ctx):
        self.s.set_up(t_start=t, dt_start=dt, context=ctx)

    def pers(self, pnames):
        return [[n, norm(self.s.context.get(n))] for n in pnames]

    def raw_keys(self):
        return sorted(self.s.context.keys())

    def set_state(self, values, phase):
        for k, v in values.items():
            if v is not None:
                self.s.context[k] = v
        self.s.next_phase = phase


class CodegenBackend:
    name = "pycodegen"

    def __init__(self, code, funcs):
        from dagrt.codegen.python import CodeGenerator
        cg = CodeGenerator("VerifStepper")
        cls = cg.get_class(code)
        self.gmap = dict(cg._name_manager._global_map._dict)
        self.s = cls(funcs)

    def set_up(self, t, dt, ctx):
        self.s.set_up(t_start=t, dt_start=dt, context=ctx)

    def _attr(self, n):
        ident = self.gmap.get(n)
        if ident is None:
            return None
        return ident[len("self."):]

    def pers(self, pnames):
        out = []
        for n in pnames:
            a = self._attr(n)
            out.append([n, norm(getattr(self.s, a, None) if a else None)])
        return out

    def raw_keys(self):
        return sorted(k for k in vars(self.s) if not k.startswith("_") and k not in (
            "phase_transition_table", "next_phase", "t", "dt") and not k.startswith("global_"))

    def set_state(self, values, phase):
        for k, v in values.items():
            a = self._attr(k)
            if a and v is not None:
                setattr(self.s, a, v)
        self.s.next_phase = phase


BACKENDS = {"interp": InterpBackend, "pycodegen": CodegenBackend}


def run_events(be, pnames, bound, cap):
    """Consume at most cap events of run(); returns (events, exception object or None)."""
    events = []
    kwargs = {}
    if bound.get("max_steps", -1) != -1:
        kwargs["max_steps"] = bound["max_steps"]
    if bound.get("t_end", -1) != -1:
        kwargs["t_end"] = bound["t_end"]
    exc = None
    try:
        for ev in be.s.run(**kwargs):
            tn = type(ev).__name__
            if tn == "StateComputed":
                events.append(["yield", norm(ev.t), ev.time_id, ev.component_id, norm(ev.state_component)])
            elif tn == "StepCompleted":
                cur = getattr(ev, "current_state", None) or getattr(ev, "current_phase", None)
                events.append(["done", norm(ev.dt), norm(ev.t), cur, ev.next_phase, be.pers(pnames)])
            elif tn == "StepFailed":
                events.append(["fail", norm(ev.t), be.s.next_phase, be.pers(pnames)])
            else:
                events.append(["unknown-event", tn])
            if len(events) >= cap:
                break
    except Exception as e:           # whatever escapes run() is part of the observation
        exc = e
        kind = getattr(e, "condition", None) if type(e).__name__ == "StepError" else None
        if kind is not None or type(e) in progs.ERROR_KINDS.values():
            events.append(["raise", kind or type(e).__name__, be.pers(pnames)])
        else:
            events.append(["exc", type(e).__name__, str(e)[:80]])
    return events[:cap], exc


def record(method, backend, inp, bound, cap, fault=None):
    """One run of one back end.  inp = [[name, tagged value], ...] incl. <t> and <dt>."""
    code = build_code(method)
    funcs, _state = make_funcs(fault)
    be = BACKENDS[backend](code, funcs)
    vals = {k: to_runtime(v) for k, v in inp}
    ctx = {k[len("<state>"):]: v for k, v in vals.items() if k.startswith("<state>")}
    be.set_up(vals["<t>"], vals["<dt>"], ctx)
    pn = persistent_names(dict(method, input=inp))
    events, _ = run_events(be, pn, bound, cap)
    return events
