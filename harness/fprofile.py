"""The 'fortran' program profile shared by C03, C12 and C15: the language subset the Fortran target
supports (real scalars, arrays, user-type vectors, counted loops, guards, conditional expressions,
built-ins, a registered right-hand-side function, phases with failures and switches), and helpers
to run the real Fortran code generator on such programs."""

from .gen import CMP, C, S, V, acall, assign, if_, yield_

Y = "<state>y"
N, M = "<p>n", "<p>m"
INPUTS = {"<t>", "<dt>", Y, N, M}


def P(*xs):
    return ["prod", list(xs)]


def CALL(f, args, kw=None):
    return ["call", V(f), list(args), kw or []]


def IF(c, t, e):
    return ["if", c, t, e]


def alphabet(ut=True, scalars=True):
    """Calls over user-type temporaries k, w, w2, scalars a, b, array arr; guards compare the
    persistent scalar inputs <p>n, <p>m with constants (so a driver can realise any valuation)."""
    a = []
    if ut:
        a += [
            acall(["k"], "<func>rhs", [V("<t>"), V(Y)]),
            assign("w", S(V(Y), P(V("<dt>"), V("k")))),
            assign("w2", V("w")),                                   # move between temporaries
            assign(Y, V("w")),                                      # move into persistent state
            assign(Y, V("w2")),
            acall(["k"], "<func>rhs", [V("<t>"), V("w")]),            # overwrite of a temporary
            assign("w", V("k")),
            assign("w", S(V("w"), V("w2"))),                        # self-update of a user-type temporary
            assign(Y, S(V(Y), P(C(2), V("k")))),
            yield_(V(Y)),
            yield_(V("w"), comp="y", tid="aux"),
            assign("b", CALL("<builtin>norm_2", [V("w")])),
            assign("w", S(V("w"), P(V("i"), V("k"))), loops=[["i", C(0), C(3)]]),      # user-type update in a loop
        ]
    if scalars:
        a += [
            assign("a", S(V(N), C(1))),
            assign(N, V("a")),
            assign(N, S(V(N), C(1))),
            assign(M, P(V(M), C(2))),
            assign("<t>", S(V("<t>"), V("<dt>"))),
            assign("a", IF(CMP(">", V(N), C(1)), C(1), C(2))),
            assign("a", IF(CMP("<", V(M), C(1)), S(V(N), C(3)), IF(CMP("!=", V(N), C(2)), C(5), V(M)))),
            assign(N, IF(CMP(">", V(N), C(1)), C(1), C(2))),
            assign(M, IF(CMP("<=", V(M), C(1)), S(V(N), C(3)), IF(CMP(">=", V(N), C(2)), C(5), V(M)))),
            assign("arr", CALL("<builtin>array", [C(3)])),
            assign("arr", S(V("i"), V(N)), sub=[V("i")], loops=[["i", C(0), C(3)]]),
            assign("arr", S(V("i"), P(C(2), V("j"))), sub=[V("j")], loops=[["i", C(0), C(2)], ["j", V("i"), C(3)]]),   # inner bound uses the outer index
            assign("a", ["sub", V("arr"), [C(1)]]),
            assign(M, ["pow", S(V(N), C(-3)), C(2)]),
            assign("b", CALL("<builtin>len", [V("arr")])),
            assign("a", ["min", [V(N), V(M)]]),
            assign(N, P(C(-1), ["pow", V(N), C(2)])),
            assign("b", S(V(M), C(1))),
            acall(["a", "b"], "<func>h2", [V("a"), V("b")]),           # two self-dependent assignees at once
        ]
    a += [
        if_(CMP(">", V(N), C(2))),
        if_(CMP("<", V(M), C(1))),
        if_(CMP("==", V(N), C(1))),
        if_(["and", [CMP(">", V(N), C(2)), ["or", [CMP("<", V(M), C(1)), CMP("==", V(N), C(1))]]]]),
        if_(["or", [["and", [CMP("<", V(N), C(2)), CMP(">", V(M), C(1))]], CMP(">=", V(N), C(3))]]),
        if_(["not", ["or", [CMP("<", V(N), C(1)), CMP(">", V(M), C(1))]]]),
        if_(["not", ["and", [CMP(">", V(N), C(0)), CMP("<", V(M), C(1))]]]),          # negation of a conjunction
        if_(["and", [["not", CMP("<", V(N), C(1))], ["or", [["not", CMP(">", V(M), C(1))], CMP("==", V(N), C(3))]]]]),
        {"op": "fail"},
        {"op": "switch", "to": "p1"},
        {"op": "switch", "to": "p0"},                                   # a phase switching to itself
        {"op": "restart"},
    ]
    return a


def transition_family():
    """Every way a step of p0 can end (runs through, fails, switches to itself / to the other phase, restarts), under
    a guard that changes from step to step, for both default successors: [(calls of p0, default successor of p0)]."""
    out = []
    ends = [None, {"op": "fail"}, {"op": "switch", "to": "p0"}, {"op": "switch", "to": "p1"}, {"op": "restart"}]
    for nxt in ("p0", "p1"):
        for end in ends:
            for guard in (CMP("<", V(N), C(2)), CMP(">=", V(N), C(2)), None):
                body = [assign(N, S(V(N), C(1))), yield_(V(Y))]
                if end is not None:
                    body += ([if_(guard), end, {"op": "endif"}] if guard is not None else [end])
                out.append((body + ([assign(M, S(V(M), C(1)))] if guard is not None or end is None else []), nxt))
    return out


# The second phase also fixes the kinds of the persistent inputs for kind inference (a persistent variable that
# is only ever read has no kind, and the Fortran target does not support such methods).
P1_CALLS = [assign(N, C(0)), assign(M, C(2)), acall([Y], "<func>rhs", [V("<t>"), V(Y)]), {"op": "switch", "to": "p0"}]
# a second phase that uses the SAME temporary names as the first one and calls the right-hand side inside expressions
# (the statement rewriters then create statements with the same ids in both phases)
P1_SAME_NAMES = [assign(N, C(0)), assign(M, C(2)), assign("w", P(C(2), V(Y))),
                 assign(Y, S(V("w"), P(V("<dt>"), ["call", V("<func>rhs"), [V("<t>"), V("w")], []]))),
                 {"op": "switch", "to": "p0"}]
P1_LAST_USE_IN_CALL = [assign(N, C(0)), assign(M, C(2)), assign("w", P(C(2), V(Y))),
                       assign(Y, S(V(Y), P(V("<dt>"), ["call", V("<func>rhs"), [V("<t>"), V("w")], []]))),
                       {"op": "switch", "to": "p0"}]
CALL_IN_EXPR = [acall(["k"], "<func>rhs", [V("<t>"), V(Y)]), assign("w", S(V(Y), P(V("<dt>"), V("k")))),
                assign(Y, S(V("w"), P(V("<dt>"), ["call", V("<func>rhs"), [V("<t>"), V("w")], []]))), yield_(V(Y))]


def registry():
    import dagrt.codegen.fortran as f
    from dagrt.function_registry import base_function_registry, register_ode_rhs
    freg = register_ode_rhs(base_function_registry, "y", identifier="<func>rhs")
    freg = freg.register_codegen("<func>rhs", "fortran", f.CallCode("""
        ${result} = -2*${y} + ${t}
        """))
    from dagrt.data import Scalar
    from dagrt.function_registry import register_function
    freg = register_function(freg, "<func>h2", ("x", "y"), result_names=("r1", "r2"),
                             result_kinds=(Scalar(True), Scalar(True)))
    freg = freg.register_codegen("<func>h2", "fortran", f.CallCode("""
        ${r1} = ${x} + 1
        ${r2} = ${y} * 2
        """))
    return freg


def fortran_generator(module_name="dagrtmod", explicit_index_vars=True, **kw):
    """explicit_index_vars: name the array index variable in the type description, so that the
    description handed to the generator really is the same object-for-object description (an
    ArrayType built without index_vars draws them from a process-global counter)."""
    import dagrt.codegen.fortran as f
    at = f.ArrayType((2,), f.BuiltinType("real*8"), index_vars="iy") if explicit_index_vars \
        else f.ArrayType((2,), f.BuiltinType("real*8"))
    return f.CodeGenerator(module_name, function_registry=registry(), user_type_map={"y": at}, **kw)


def func_rhs(t, y):
    return -2 * y + t


def func_h2(x, y):
    return x + 1, y * 2


FUNCS = {"<func>rhs": func_rhs, "<func>h2": func_h2}


def core_shapes():
    """Hand-shaped programs that every Fortran check includes besides the generated ones: the move / overwrite /
    early-exit / guard / loop patterns the properties name."""
    a = alphabet()
    k, w, w2mv, ymv, ymv2, kw_, wk, wupd, yupd, yld, yldw, nrm, wloop = a[:13]
    n_gt2 = if_(CMP(">", V(N), C(2)))
    m_lt1 = if_(CMP("<", V(M), C(1)))
    n_eq1 = if_(CMP("==", V(N), C(1)))
    E, F_, SW = {"op": "endif"}, {"op": "fail"}, {"op": "switch", "to": "p1"}
    ninc = assign(N, S(V(N), C(1)))
    return [
        [k, w, n_gt2, F_, E, ymv, yld],                                    # early exit before the last use
        [k, w, m_lt1, ymv, E, ninc],                                       # last use inside a guard
        [k, w, wloop, ymv, yld],                                           # last use inside a loop
        [k, w, w2mv, wupd, ymv2, yld],                                     # move, then copy-on-write
        [k, w, ymv, kw_, wk, yupd],                                        # moved into state, then overwritten
        [k, w, yldw, n_eq1, F_, E, ymv],                                   # yield of a temporary, then a failure
        [k, w, m_lt1, SW, E, ymv, ninc],                                   # switch before a last use
        [n_gt2, k, w, E, {"op": "else"}, k, {"op": "endelse"}, ninc],      # assigned in a guard
        [k, w, ymv, yld, ninc, n_gt2, SW, E],
        [k, n_gt2, w, E, {"op": "else"}, assign("w", S(V(Y), P(C(2), V("k")))), {"op": "endelse"}, ymv, ninc],   # written in both branches
        [k, m_lt1, w, E, assign("w", S(V(Y), P(C(3), V("k")))), ymv, ninc],                                      # written in a guard, again after it
        [n_eq1, k, E, kw_ if False else acall(["k"], "<func>rhs", [V("<t>"), V(Y)]), w, ymv],
    ] + [[g, assign(M, S(V(M), C(5))), E, ninc] for g in a if g["op"] == "if"] + [   # every guard form of the profile
        [assign(M, ["pow", ["pow", V(N), C(2)], C(3)]), ninc],            # a power as the base of a power
        # last use of a user-type value inside a branch of a conditional expression inside a loop
        [k, assign(Y, S(V(Y), P(V("<dt>"), ["if", CMP(">", V("i"), C(1)), V("k"), P(C(2), V("k"))])), loops=[["i", C(0), C(3)]]), yld],
        [k, w, assign("w", S(V("w"), ["if", CMP("<", V("i"), C(1)), P(C(2), V("k")), V("k")]), loops=[["i", C(0), C(2)]]), ymv, yld],
        # user-type values inside a loop NEST: last use of k inside two loops, self-update of w inside two loops
        [k, w, assign("w", S(V("w"), P(V("j"), V("k"))), loops=[["i", C(0), C(2)], ["j", C(0), C(2)]]), ymv, yld],
        [k, assign(Y, S(V(Y), V("k")), loops=[["i", C(0), C(3)], ["j", C(0), C(2)]]), yld, ninc],
        # loop nests: the inner bound uses the outer index; a loop bound held in a persistent variable
        [assign("arr", ["call", V("<builtin>array"), [C(4)], []]), assign("arr", C(0), sub=[V("i")], loops=[["i", C(0), C(4)]]),
         assign("arr", S(["sub", V("arr"), [V("j")]], V("i"), P(C(2), V("j")), C(1)), sub=[V("j")],
                loops=[["i", C(0), C(3)], ["j", V("i"), C(4)]]),
         assign(M, S(["sub", V("arr"), [C(1)]], P(C(3), ["sub", V("arr"), [C(3)]]))), ninc],
        [assign("arr", ["call", V("<builtin>array"), [C(4)], []]), assign("arr", V("i"), sub=[V("i")], loops=[["i", C(0), C(4)]]),
         assign("arr", S(["sub", V("arr"), [V("i")]], C(10)), sub=[V("i")], loops=[["i", V(N), C(3)]]),
         assign(M, S(["sub", V("arr"), [C(0)]], ["sub", V("arr"), [C(2)]])), ninc],
        # whole-array arithmetic: a sum of an array defined by an earlier statement and an operand of scalar kind (the
        # kind of the sum is only known once the array's is)
        [assign("arr", ["call", V("<builtin>array"), [C(3)], []]), assign("arr", S(V("i"), V(N)), sub=[V("i")], loops=[["i", C(0), C(3)]]),
         assign("arr2", S(V("arr"), C(1))), assign("arr3", S(V(N), P(C(2), V("arr2")))),
         assign(M, S(V(M), ["call", V("<builtin>len"), [V("arr2")], []], ["sub", V("arr2"), [C(1)]], ["sub", V("arr3"), [C(2)]])), ninc],
        # the same without subscripting the derived arrays (the subscripts above hit the known lower-bound finding)
        [assign("arr", ["call", V("<builtin>array"), [C(3)], []]), assign("arr", S(V("i"), V(N)), sub=[V("i")], loops=[["i", C(0), C(3)]]),
         assign("arr2", S(V("arr"), C(1))), assign("arr3", S(V(N), P(C(2), V("arr2")))),
         assign(M, S(V(M), ["call", V("<builtin>len"), [V("arr2")], []], P(C(2), ["call", V("<builtin>len"), [V("arr3")], []]))), ninc],
    ]
