"""C16 -- fusing two methods runs both on shared persistent state without interference.

Pairs of builder programs (behaviours of specs/ProgGen.tla, overlapping temporaries, flags and
statement ids) are fused by the real fuse_two_dags under several renaming predicates.
specs/Fuse.tla checks the fused statements statically against a witness (ids, dependencies,
consistent and injective renaming including guards, renamed exactly as asked);
specs/SchedGroups.tla executes the fused phase in every admissible order and guard valuation and
requires each method's persistent results to equal what its own statements produce."""

import json
import random

from . import exprs, gen, progs, tlc
from .common import sample
from .gen import CMP, C, S, V, acall, assign, if_, yield_

LEVEL = "model_checking"


def alphabet():
    return [
        assign("a", S(V("<state>y"), C(1))),
        assign("b", V("a")),
        assign("<state>y", S(V("a"), V("<state>y"))),
        assign("<state>z", S(V("b"), V("<t>"))),
        assign("<p>q", V("a")),
        assign("arr", V("a"), sub=[V("n")]),
        assign("n", C(2)),
        acall(["a", "b"], "<func>g", [V("a")], kw=[["k", V("<dt>")]]),
        if_(CMP("<", V("a"), V("b"))),
        if_(CMP(">", V("<state>y"), C(0))),
        yield_(V("<state>y")),
        assign("<t>", S(V("<t>"), V("<dt>"))),
        assign("a", ["call", V("<func>f"), [V("b")], []]),
        assign("arr", S(V("i"), V("b")), sub=[V("i")], loops=[["i", C(0), V("n")]]),
        assign("<state>v", V("a"), sub=[V("n")]),
        yield_(V("a"), comp="a", time=S(V("<t>"), V("n"))),
        # function symbols INSIDE expressions (a bare call on the right is turned into a call statement by the builder)
        assign("b", S(V("a"), ["prod", [V("<dt>"), ["call", V("<func>f"), [V("b")], []]]])),
        yield_(["call", V("<func>f"), [V("<state>y")], [["k", V("a")]]], comp="r"),
    ]


def walk_names(j, out):
    """Variable occurrences in traversal order (function symbols in call position skipped)."""
    t = j[0]
    if t == "v":
        out.append(j[1])
    elif t in ("sum", "prod", "and", "or", "min", "max", "tuple"):
        for c in j[1]:
            walk_names(c, out)
    elif t in ("pow", "quot", "fdiv", "rem"):
        walk_names(j[1], out)
        walk_names(j[2], out)
    elif t == "cmp":
        walk_names(j[2], out)
        walk_names(j[3], out)
    elif t == "not":
        walk_names(j[1], out)
    elif t == "if":
        for c in j[1:4]:
            walk_names(c, out)
    elif t == "sub":
        walk_names(j[1], out)
        for c in j[2]:
            walk_names(c, out)
    elif t == "call":
        if j[1][0] != "v":
            walk_names(j[1], out)
        for c in j[2]:
            walk_names(c, out)
        for _k, c in j[3]:
            walk_names(c, out)
    return out


def skeleton(j):
    t = j[0]
    if t == "v":
        return ["v", "#"]
    if t == "call":
        return ["call", j[1] if j[1][0] == "v" else skeleton(j[1]), [skeleton(c) for c in j[2]],
                [[k, skeleton(c)] for k, c in j[3]]]
    out = [t]
    for x in j[1:]:
        if isinstance(x, list) and x and isinstance(x[0], str) and x[0] in (
                "v", "c", "cb", "cx", "sum", "prod", "pow", "quot", "fdiv", "rem", "cmp", "and", "or", "not",
                "if", "min", "max", "sub", "call", "none", "s", "x", "tuple"):
            out.append(skeleton(x))
        elif isinstance(x, list):
            out.append([skeleton(y) if isinstance(y, list) else y for y in x])
        else:
            out.append(x)
    return out


def export(stmt):
    tr = progs.stmt_trees(stmt)
    names = []
    walk_names(tr["guard"], names)
    names.extend(tr["lhs"])
    for s in tr["sub"]:
        walk_names(s, names)
    if tr["rhs"] != ["none"]:
        walk_names(tr["rhs"], names)
    for ident, lo, hi in tr["loops"]:
        names.append(ident)
        walk_names(lo, names)
        walk_names(hi, names)
    for a in tr["args"]:
        walk_names(a, names)
    for _k, a in tr["kw"]:
        walk_names(a, names)
    if tr["time"] != ["none"]:
        walk_names(tr["time"], names)
    skel = {"guard": skeleton(tr["guard"]), "nlhs": len(tr["lhs"]), "sub": [skeleton(s) for s in tr["sub"]],
            "rhs": skeleton(tr["rhs"]) if tr["rhs"] != ["none"] else None,
            "loops": [[skeleton(lo), skeleton(hi)] for _i, lo, hi in tr["loops"]],
            "args": [skeleton(a) for a in tr["args"]], "kw": [[k, skeleton(a)] for k, a in tr["kw"]],
            "time": skeleton(tr["time"]) if tr["time"] != ["none"] else None,
            "comp": tr["comp"], "tid": tr["tid"], "to": tr["to"], "err": tr["err"]}
    return {"id": stmt.id, "deps": sorted(stmt.depends_on), "kind": tr["kind"], "fid": tr["f"],
            "skel": json.dumps(skel, sort_keys=True), "names": names}


PREDS = {
    "default": (["default"], None),
    "none": (["none"], lambda n: False),
    "all": (["all"], lambda n: True),
    "only-a": (["only", "a"], lambda n: n == "a"),
}


IDS_A = ["s", "t", "u", "v", "w", "x", "y", "z"]
IDS_B = ["s_0", "s", "t_0", "t", "s_1", "u", "u_0", "v"]         # hand-written ids that look like the ones fusion makes up


def make_dag(calls, ids=None):
    from dagrt.language import DAGCode, ExecutionPhase
    cb, _ = progs.replay_calls("p0", calls)
    stmts = list(cb.statements)
    if ids is not None and len(stmts) <= len(ids):
        ren = {st.id: ids[k] for k, st in enumerate(stmts)}
        stmts = [st.copy(id=ren[st.id], depends_on=frozenset(ren[d] for d in st.depends_on)) for st in stmts]
        if ids is IDS_B:
            stmts = stmts[::-1]             # the order in which a phase lists its statements is irrelevant
    ph = ExecutionPhase(name="p0", next_phase="p0", statements=stmts)
    return DAGCode({"p0": ph}, "p0"), stmts


def _other_api_history(calls):
    """A legal history before the method is even built: other public queries on (equal copies of) the expressions it
    will contain -- what a user who pattern-matches or inspects expressions first does -- and, once built, on its
    statements.  Their answers must not leak into later calls."""
    from dagrt.utils import get_variables
    for c in calls:
        js = [c.get(k) for k in ("rhs", "c", "e", "time")] + list(c.get("sub") or []) + list(c.get("args") or []) \
            + [e for _k, e in c.get("kw") or []]
        for j in js:
            if isinstance(j, list) and j and isinstance(j[0], str):
                try:
                    e = exprs.from_json(j)
                    get_variables(e, include_function_symbols=True)
                    get_variables(e)
                except Exception:
                    pass


def fuse_case(calls_a, calls_b, predname, handids=False, history=False):
    from dagrt.transform import fuse_two_dags
    if history:
        _other_api_history(calls_a + calls_b)
    da, sa = make_dag(calls_a, IDS_A if handids else None)
    db, sb = make_dag(calls_b, IDS_B if handids else None)
    if history:
        for st in sa + sb:
            st.get_read_variables()
            st.get_written_variables()
    tag, fn = PREDS[predname]
    try:
        if fn is None:
            fused = fuse_two_dags(da, db)
        else:
            fused = fuse_two_dags(da, db, should_disambiguate_name=fn)
    except Exception as e:
        return {"err": type(e).__name__ + ": " + str(e)[:80]}
    sf = list(fused.phases["p0"].statements)
    ea, eb, ef = [export(s) for s in sa], [export(s) for s in sb], [export(s) for s in sf]
    # the two method descriptions handed in, as they are AFTER the call (fusing must not change its arguments)
    after = [[export(s) for s in d.phases["p0"].statements] if set(d.phases) == {"p0"} else [{"id": "<phases changed>"}]
             for d in (da, db)]
    # witness: A by id, B by position among the rest
    pos_by_id = {}
    for k, s in enumerate(ef):
        pos_by_id.setdefault(s["id"], k + 1)
    wa = [pos_by_id.get(s["id"], 0) for s in ea]
    rest = [k + 1 for k in range(len(ef)) if (k + 1) not in wa]
    wb = rest[:len(eb)] + [0] * max(0, len(eb) - len(rest))
    names = set()
    for s in ea + eb + ef:
        names.update(s["names"])
    return {"a": ea, "b": eb, "fused": ef, "wa": wa, "wb": wb, "pred": tag, "a_after": after[0], "b_after": after[1],
            "persistent": sorted(n for n in names if progs.is_persistent(n)),
            "fused_stmts": sf, "na": len(sa)}


def multiphase_cases(calls_a, calls_b, shape):
    """Methods with a second phase 'rest' that is empty / non-empty / absent in either method (shape = (a, b) with each
    in {"absent", "empty", "full"}).  One Fuse case per phase of the result; a missing phase is an error case."""
    from dagrt.language import DAGCode, ExecutionPhase
    from dagrt.transform import fuse_two_dags
    from .gen import C, V, assign

    def method(calls, rest, tag):
        cb, _ = progs.replay_calls("p0", calls)
        phases = {"p0": ExecutionPhase(name="p0", next_phase="p0", statements=list(cb.statements))}
        if rest != "absent":
            st = []
            if rest == "full":
                cbr, _ = progs.replay_calls("rest", [assign("a", C(1)), assign("<p>r" + tag, V("a"))])
                st = list(cbr.statements)
            phases["rest"] = ExecutionPhase(name="rest", next_phase="p0", statements=st)
        return DAGCode(phases, "p0")
    da, db = method(calls_a, shape[0], "a"), method(calls_b, shape[1], "b")
    before = {n: (list(da.phases[n].statements) if n in da.phases else [], list(db.phases[n].statements) if n in db.phases else [])
              for n in set(da.phases) | set(db.phases)}
    try:
        fused = fuse_two_dags(da, db)
    except Exception as e:
        return [{"err": type(e).__name__ + ": " + str(e)[:80]}]
    out = []
    for n, (sa, sb) in sorted(before.items()):
        ph = fused.phases.get(n)
        if ph is None or not hasattr(ph, "statements"):
            out.append({"err": "phase %s of the fused method is %r (%s/%s)" % (n, ph, shape[0], shape[1])})
            continue
        sf = list(ph.statements)
        ea, eb, ef = [export(x) for x in sa], [export(x) for x in sb], [export(x) for x in sf]
        pos_by_id = {}
        for k, x in enumerate(ef):
            pos_by_id.setdefault(x["id"], k + 1)
        wa = [pos_by_id.get(x["id"], 0) for x in ea]
        rest = [k + 1 for k in range(len(ef)) if (k + 1) not in wa]
        wb = rest[:len(eb)] + [0] * max(0, len(eb) - len(rest))
        names = set()
        for x in ea + eb + ef:
            names.update(x["names"])
        out.append({"a": ea, "b": eb, "fused": ef, "wa": wa, "wb": wb, "pred": ["default"], "a_after": ea, "b_after": eb,
                    "persistent": sorted(x for x in names if progs.is_persistent(x)), "fused_stmts": sf, "na": len(sa),
                    "handids": True, "multiphase": [n, list(shape)]})
    return out


def dynamic_case(fc):
    """Sched case over the fused statements (when no non-assignment is present and the two sides
    do not touch each other's written persistent variables)."""
    sf = fc["fused_stmts"]
    recs = progs.export_statements(sf)
    if any(r["halt"] or r["event"] for r in recs):
        return None
    na = fc["na"]
    ga, gb = list(range(1, na + 1)), list(range(na + 1, len(recs) + 1))

    def touched(idx, key):
        out = set()
        for i in idx:
            out.update(v for v in recs[i - 1][key] if progs.is_persistent(v))
        return out
    wa_, wb_ = touched(ga, "twrites"), touched(gb, "twrites")
    ra_ = touched(ga, "treads")
    rb_ = touched(gb, "treads")
    if (wa_ & (wb_ | rb_)) or (wb_ & (wa_ | ra_)):
        return None
    return {"stmts": recs, "vars": progs.all_vars(recs), "fresh": [], "groups": [ga, gb]}


def run(chk):
    rng = random.Random(chk.seed)
    alpha = alphabet()
    programs, _ = gen.tlc_programs(alpha, 3, chk=chk, minlen=1)
    sim, _ = gen.tlc_programs(alpha, 6, simulate=200 if chk.quick else 3000, seed=chk.seed, chk=chk, minlen=4)
    programs_small = [p for p in programs if len(p) <= 2]
    pairs = []
    # exhaustive: all ordered pairs of programs with <= 2 calls (quick: sampled) under the default predicate
    allpairs = [(a, b) for a in programs_small for b in programs_small]
    if chk.quick and len(allpairs) > 3000:
        allpairs = rng.sample(allpairs, 3000)
    pairs += [(a, b, "default") for a, b in allpairs]
    pool = programs + sim
    for _ in range(1500 if chk.quick else 30000):
        pairs.append((rng.choice(pool), rng.choice(pool), rng.choice(list(PREDS))))
    # stratified pairs: both methods use the same kind of construct (conditionals -> both create <cond> flags, loops ->
    # both use the loop identifier, calls, element assignments), which uniform sampling of pairs almost never produces
    feats = {"if": lambda c: c["op"] == "if", "loop": lambda c: bool(c.get("loops")), "acall": lambda c: c["op"] == "acall",
             "sub": lambda c: bool(c.get("sub")), "yield": lambda c: c["op"] == "yield"}
    plain = [c for c in alpha if c["op"] in ("assign", "acall", "yield")]
    else_pool = [p + [{"op": "else"}, rng.choice(plain), {"op": "endelse"}] for p in pool if p and p[-1]["op"] == "endif"]
    feats["else"] = lambda c: c["op"] == "else"
    for fname, has in sorted(feats.items()):
        sel = [p for p in pool + else_pool if any(has(c) for c in p)]
        if not sel:
            raise tlc.MachineryError("no generated program has feature %s" % fname)
        for _ in range(150 if chk.quick else 3000):
            pairs.append((rng.choice(sel), rng.choice(sel), rng.choice(["default", "default", "all", "only-a"])))
    cases, meta = [], []
    for k_, (a, b, pn) in enumerate(pairs):
        fc = fuse_case(a, b, pn, handids=(k_ % 3 == 1), history=(k_ % 2 == 1))
        if "err" in fc:
            chk.violation("C16:fuse-raised:%s" % fc["err"].split(":")[0], "fuse_two_dags raised %s on [%s] + [%s] pred %s"
                          % (fc["err"], progs.show_prog(a), progs.show_prog(b), pn), {"a": a, "b": b, "pred": pn})
            continue
        fc["handids"] = (k_ % 3 == 1)
        fc["history"] = (k_ % 2 == 1)
        cases.append(fc)
        meta.append((a, b, pn))
    # several phases: a phase that only one method has, with and without statements
    shapes = [(x, y) for x in ("absent", "empty", "full") for y in ("absent", "empty", "full") if (x, y) != ("absent", "absent")]
    small = [p for p in pool if 1 <= len(p) <= 3]
    for shape in shapes:
        for _ in range(6 if chk.quick else 120):
            a, b = rng.choice(small), rng.choice(small)
            for fc in multiphase_cases(a, b, shape):
                if "err" in fc:
                    chk.violation("C16:fuse-raised:%s" % fc["err"].split(":")[0].split(" ")[0], "fuse_two_dags on two-phase methods (%s): %s; [%s] + [%s]"
                                  % (shape, fc["err"], progs.show_prog(a), progs.show_prog(b)), {"a": a, "b": b, "pred": "default", "shape": list(shape)})
                    continue
                cases.append(fc)
                meta.append((a, b, "default"))
    chk.stage("fuse")
    tl = [{k: c[k] for k in ("a", "b", "fused", "wa", "wb", "pred", "persistent", "a_after", "b_after")} for c in cases]
    out = tlc.judge_batch("Fuse", tl, chunk=2500, chk=chk)
    bad = {}
    for t in out["BAD"]:
        bad.setdefault(t[1], set()).add(t[2])
    for k in sorted(bad):
        a, b, pn = meta[k]
        c = cases[k]
        ren = sorted({(x, y) for sb_, pos in zip(c["b"], c["wb"]) if pos for x, y in zip(sb_["names"], c["fused"][pos - 1]["names"]) if x != y})
        for clause in sorted(bad[k]):
            kinds = sorted({"persistent-renamed" if progs.is_persistent(x) else ("flag" if x.startswith("<cond>") else "temporary")
                            for x, _y in ren}) if clause == "AsAsked" else []
            chk.violation("C16:%s:pred=%s:%s" % (clause, pn, "+".join(kinds) or "-"),
                          "fuse_two_dags([%s], [%s], pred=%s) violates %s; renaming read off the result: %s"
                          % (progs.show_prog(a), progs.show_prog(b), pn, clause, ren), {"a": a, "b": b, "pred": pn, "handids": c.get("handids", False), "history": c.get("history", False)})
    chk.stage("tlc_static")
    dyn, dmeta = [], []
    for k, c in enumerate(cases):
        if k in bad or meta[k][2] not in ("default",) or c.get("handids"):
            continue            # (hand-written ids list the second method backwards: list order is no reference order there)
        d = dynamic_case(c)
        if d is not None:
            dyn.append(d)
            dmeta.append(meta[k])
    out2 = tlc.judge_batch("SchedGroups", dyn, chunk=800, workers=2, chk=chk)
    for t in out2["BAD"]:
        a, b, pn = dmeta[t[1]]
        chk.violation("C16:NonInterference:pred=%s" % pn,
                      "fused [%s] + [%s]: some admissible schedule leaves a method's persistent variable with a "
                      "value its own statements do not produce" % (progs.show_prog(a), progs.show_prog(b)),
                      {"a": a, "b": b, "pred": pn, "dynamic": True})
    chk.stage("tlc_dynamic")
    chk.coverage.update({
        "evaluations": len(cases),
        "distinct_nontrivial": sum(1 for c in cases if set(n for s in c["a"] for n in s["names"]) &
                                   set(n for s in c["b"] for n in s["names"])),
        "rule": "pairs = all ordered pairs of ProgGen programs with <= 2 calls over a %d-call alphabet%s under the "
                "default predicate + random pairs of programs up to 6 calls under predicates default/none/all/only-a; "
                "non-trivial = the two sides share at least one name" % (len(alpha), " (sampled)" if chk.quick else ""),
        "exhaustive": not chk.quick,
        "pairs": len(cases), "static_violations": len(bad),
        "dynamic_cases": len(dyn), "dynamic_violations": len(out2["BAD"]),
        "traces_validated_against_impl": len(cases) + len(dyn),
        "samples": sample([{"a": progs.show_prog(m[0]), "b": progs.show_prog(m[1]), "pred": m[2],
                            "fused": [s["id"] for s in c["fused"]]} for m, c in zip(meta, cases)], 4),
    })
    chk.assumptions += ["the witness (image of each statement) is proposed by the harness from ids and list order "
                        "and checked by TLC; phases are handed over as lists in written order",
                        "dynamic part: pairs without yields/failures whose written persistent variables are not "
                        "touched by the other side; default predicate"]


def replay(chk, rep):
    c = rep["case"]
    fc = fuse_case(c["a"], c["b"], c["pred"], handids=c.get("handids", False), history=c.get("history", False))
    for s in fc.get("fused", []):
        print("  ", s["id"], s["deps"], s["names"])
    hit = False
    if "err" in fc:
        print("raised", fc["err"])
        hit = True
    elif c.get("dynamic"):
        d = dynamic_case(fc)
        res = tlc.run_tlc("SchedGroups", cfg="SchedGroupsStrict", env={"CASES": tlc.write_cases([d])}, workers=1)
        hit = bool(res.violated)
    else:
        tl = {k: fc[k] for k in ("a", "b", "fused", "wa", "wb", "pred", "persistent", "a_after", "b_after")}
        res = tlc.run_tlc("Fuse", cfg="FuseStrict", env={"CASES": tlc.write_cases([tl])}, workers=1)
        hit = bool(res.violated)
        print("TLC:", res.violated or "accepted")
    if hit:
        chk.violation(rep["signature"], "replayed case still violates the contract", c)
    chk.coverage.update({"evaluations": 1, "distinct_nontrivial": 2, "samples": [c]})
