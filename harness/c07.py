"""C07 -- statement-rewriting passes preserve meaning and never capture names.

Phases are built by the real CodeBuilder from ProgGen behaviours over the 'rewrite' profile (nested
calls, calls inside conditional-expression branches, nested conditional expressions, self-updates,
guards, loops, user names that resemble generated ones), lowered by the real create_ast_from_phase
and rewritten by each real pass alone and by the four in the Fortran generator's order;
specs/Rewrite.tla runs the trees before and after on every small input valuation."""

import json
import random

from . import exprs, gen, progs, tlc, trees
from .common import sample
from .gen import CMP, C, S, V, acall, assign, if_, yield_

LEVEL = "translation_validation"

Y, Z = V("<state>y"), V("<state>z")
W = "<state>w"
INPUTS = {"<state>y", "<state>z", W}


def P(*xs):
    return ["prod", list(xs)]


def CALL(f, args, kw=None):
    return ["call", V(f), list(args), kw or []]


def IF(c, t, e):
    return ["if", c, t, e]


def SUB(a, i):
    return ["sub", V(a), [i]]


def alphabet():
    return [
        assign("a", CALL("<func>f", [S(CALL("<func>g", [Y, C(1)]), C(1))])),
        assign("a", IF(CMP("<", Y, C(2)), CALL("<func>f", [Y]), CALL("<func>g", [Y, C(2)]))),
        assign("a", IF(CMP("<", Y, C(1)), Y, IF(CMP("<", Z, C(2)), Z, C(5)))),
        assign("<state>y", CALL("<func>f", [Y])),
        assign("<state>y", S(Y, V("a"))),
        assign(W, S(SUB(W, S(V("i"), C(-1))), C(1)), sub=[V("i")], loops=[["i", C(1), C(3)]]),
        assign("tmp", S(Y, C(1))),
        assign("tmp_0", C(2)),
        assign("b", S(V("tmp"), CALL("<func>f", [V("tmp_0")]))),
        assign("ifthenelse_result", C(7)),
        assign("c", IF(CMP("<", Y, C(1)), V("ifthenelse_result"), C(0))),
        assign("temp__state_y", C(3)),
        assign("<state>y", S(Y, V("temp__state_y"))),
        if_(CMP("<", Y, C(2))),
        if_(CMP(">", Z, C(0))),
        assign("a", CALL("<func>f", [Y], [["k", CALL("<func>f", [Z])]])),
        yield_(V("a"), comp="a"),
        acall(["a", "b"], "<func>g2", [S(Y, C(1))]),
        assign("<state>z", S(Z, IF(CMP("<", V("a"), C(3)), C(1), C(-1)))),
        assign("a", S(Z, C(1))),
        assign("b", S(C(1), CALL("<func>f", [CALL("<func>g", [Y, C(1)])]))),        # call nested in a call's argument
        assign("c", S(V("temp__state_y"), Y)),
    ]


def _gexpr(form):
    f, g = "<func>f", "<func>g"
    inrange = ["min", [["max", [Z, C(0)]], C(2)]]
    return {
        "const": C(2), "var": Y, "sum": S(Y, Z), "subconst": SUB(W, C(0)), "subvar": SUB(W, inrange), "subloop": SUB(W, V("i")),
        "ifexpr": IF(CMP("<", Y, C(2)), Y, Z), "min": ["min", [Y, Z]],
        "and": ["and", [CMP("<", Y, C(2)), CMP("<", Z, C(2))]], "or": ["or", [CMP("<", Y, C(2)), CMP("<", CALL(f, [Z]), C(4))]],
        "call": CALL(f, [Y]), "callkw": CALL(f, [Y], [["k", Z]]), "pow": ["pow", CALL(f, [Y]), C(2)],
        "quot": CALL(g, [Y, CALL(f, [Z])]), "neg": ["prod", [C(-1), CALL(f, [C(0)])]], "statevar": Z,
        "pvar": CALL(f, [IF(CMP("<", Y, C(2)), CALL(f, [Y]), Z)]), "cmp": CMP("<", CALL(f, [Y]), C(3)),
        # nested conditional expressions; the same conditional inside a branch of another one and again outside it
        "ifnested": IF(CMP("<", Y, C(2)), IF(CMP("<", Z, C(2)), Z, P(C(-1), Z)), C(5)),
        "ifrepeat": S(IF(CMP("<", Y, C(2)), IF(CMP("<", Z, C(2)), Z, P(C(-1), Z)), C(0)), IF(CMP("<", Z, C(2)), Z, P(C(-1), Z))),
    }[form]


def shape_programs(sh):
    """Instantiate one StmtGen shape (assignments and calls) with the names of the 'rewrite' profile; loops whose
    identifier the statement does not mention are also given identifiers that resemble generated names."""
    if sh["kind"] not in ("assign", "acall1", "acall2"):
        return []
    uses_loop = sh["rhs"] == "subloop" or sh["lhs"] in ("subloop", "subsum")
    out = []
    for ident in (["i"] if uses_loop or sh["loops"] == "none" else ["i", "tmp", "tmp_0"]):
        loops = {"none": [], "zero_to_var": [[ident, C(0), C(3)]], "var_to_var": [[ident, C(1), ["min", [S(Z, C(1)), C(3)]]]],
                 "two_dependent": [[ident, C(0), C(2)], ["j", V(ident), C(2)]],
                 "literal_then_var": [[ident, C(0), C(2)], ["j", C(0), ["min", [S(Z, C(1)), C(2)]]]],
                 "three_mixed": [[ident, C(0), C(2)], ["j", C(0), C(2)], ["k", C(0), ["min", [S(Z, C(1)), C(2)]]]]}[sh["loops"]]
        guard = {"none": None, "cmp": CMP("<", Y, C(2)), "and": ["and", [CMP(">", Y, C(0)), CMP("<", Z, C(3))]],
                 "statecmp": CMP("<", Z, Y)}[sh["guard"]]
        if sh["kind"] == "assign":
            lhs, sub = {"plain": ("a", None), "subconst": (W, [C(0)]), "subvar": (W, [["min", [["max", [Z, C(0)]], C(2)]]]),
                        "subloop": (W, [V("i")]), "subsum": (W, [S(V("i"), C(-1))]), "pvarsub": ("<state>z", None),
                        "statevar": ("<state>y", None)}[sh["lhs"]]
            rhs = _gexpr(sh["rhs"])
            if sh["lhs"] == "subsum" and sh["loops"] != "var_to_var":
                continue
            if rhs[0] == "call" and sub and not loops:
                continue                                      # the builder refuses this form (ValueError)
            st = assign(lhs, rhs, sub=sub, loops=loops)
        else:
            kw = {"none": [], "var": [["k", Z]], "sum": [["k", S(Z, C(1))]], "sub": [["k", SUB(W, C(1))]],
                  "ifexpr": [["k", IF(CMP("<", Y, C(2)), CALL("<func>f", [Z]), C(1))]]}[sh["kw"]]
            lhs, f = {"acall1": (["a"], "<func>f"), "acall2": (["a", "b"], "<func>g2")}[sh["kind"]]
            st = acall(lhs, f, [_gexpr(sh["rhs"])], kw=kw if f == "<func>f" else [])
        out.append(([if_(guard)] if guard else []) + [st] + ([{"op": "endif"}] if guard else []))
    return out


def grammar_programs(chk):
    res = tlc.run_tlc("StmtGen", workers=1, timeout=600)
    chk.add_tlc(res)
    out = []
    for sh in res.json_lines("GEN"):
        out.extend(shape_programs(sh))
    if len(out) < 500:
        raise tlc.MachineryError("StmtGen produced %d programs" % len(out))
    return out


def export_tree(node):
    from dagrt.codegen.dag_ast import (Block, ForLoop, IfThen, IfThenElse, NullASTNode,
                                       StatementWrapper)
    if isinstance(node, StatementWrapper):
        rec = progs.stmt_trees(node.statement)
        rec["id"] = node.statement.id
        return ["L", rec]
    if isinstance(node, NullASTNode):
        return ["N"]
    if isinstance(node, Block):
        return ["B", [export_tree(c) for c in node.children]]
    if isinstance(node, IfThenElse):
        return ["E", exprs.to_json(node.condition), export_tree(node.then), export_tree(node.else_)]
    if isinstance(node, IfThen):
        return ["I", exprs.to_json(node.condition), export_tree(node.then)]
    if isinstance(node, ForLoop):
        return ["F", node.loop_var_name, exprs.to_json(node.lbound), exprs.to_json(node.ubound), export_tree(node.body)]
    raise ValueError(node)


def leaves(tree, out):
    t = tree[0]
    if t == "L":
        out.append(tree[1])
    elif t == "B":
        for c in tree[1]:
            leaves(c, out)
    elif t == "I":
        leaves(tree[2], out)
    elif t == "E":
        leaves(tree[2], out)
        leaves(tree[3], out)
    elif t == "F":
        leaves(tree[4], out)
    return out


def tree_vars(tree):
    names = set()

    def cond_vars(tr):
        t = tr[0]
        if t in ("I", "E"):
            exprs.variables(tr[1], names)
            cond_vars(tr[2])
            if t == "E":
                cond_vars(tr[3])
        elif t == "B":
            for c in tr[1]:
                cond_vars(c)
        elif t == "F":
            names.add(tr[1])
            exprs.variables(tr[2], names)
            exprs.variables(tr[3], names)
            cond_vars(tr[4])
    cond_vars(tree)
    for s in leaves(tree, []):
        names.update(s["lhs"])
        for e in [s["guard"], s["rhs"], s["time"]] + s["sub"] + s["args"] + [v for _k, v in s["kw"]]:
            if e != ["none"]:
                exprs.variables(e, names)
    return sorted(names)


PASSES = ["eliminate_self_dependencies", "isolate_function_arguments", "isolate_function_calls",
          "expand_IfThenElse", "pipeline"]


def build_cases(calls):
    import dagrt.codegen.transform as tr
    from dagrt.codegen.dag_ast import create_ast_from_phase
    from dagrt.language import DAGCode
    cb, _ = progs.replay_calls("p0", calls)
    code = DAGCode.from_phases_list([cb.as_execution_phase("p0")], "p0")
    ast = create_ast_from_phase(code, "p0")
    before = export_tree(ast)
    out = []
    for p in PASSES:
        case = {"pass": p, "before": before, "after": ["N"], "err": "", "origvars": tree_vars(before),
                "inputs": sorted(n for n in INPUTS if n != W), "ids_before": [s["id"] for s in leaves(before, [])],
                "ids_after": [], "calls": calls}
        try:
            if p == "pipeline":
                a = ast
                for q in PASSES[:4]:
                    a = getattr(tr, q)(a)
            else:
                a = getattr(tr, p)(ast)
            case["after"] = export_tree(a)
            case["ids_after"] = [s["id"] for s in leaves(case["after"], [])]
        except Exception as e:
            case["err"] = type(e).__name__ + ": " + str(e)[:60]
        out.append(case)
    return out


def predicate(case, clause):
    """Structural predicate of the input for finding signatures."""
    feats = set()

    def walk(j, in_branch):
        t = j[0]
        if t == "call" and in_branch:
            feats.add("call-inside-conditional-expression-branch")
        if t == "if":
            walk(j[1], in_branch)
            walk(j[2], True)
            walk(j[3], True)
            return
        if t in ("and", "or"):
            for k, x in enumerate(j[1]):
                if k > 0 and '"call"' in json.dumps(x):
                    feats.add("call-inside-short-circuit-operand")
                walk(x, in_branch)
            return
        for x in j[1:]:
            if isinstance(x, list) and x and isinstance(x[0], str) and len(x) > 1 and x[0] in (
                    "v", "c", "sum", "prod", "pow", "cmp", "and", "or", "not", "if", "min", "max", "sub", "call"):
                walk(x, in_branch)
            elif isinstance(x, list):
                for y in x:
                    if isinstance(y, list) and y and isinstance(y[0], str) and len(y) > 1:
                        if isinstance(y[1], list) and y[0] not in ("v", "c", "sum", "prod", "pow", "cmp", "and", "or",
                                                                   "not", "if", "min", "max", "sub", "call"):
                            walk(y[1], in_branch)
                        else:
                            walk(y, in_branch)
    for s in leaves(case["before"], []):
        for e in [s["rhs"]] + s["args"] + [v for _k, v in s["kw"]]:
            if e != ["none"]:
                walk(e, False)
    return "+".join(sorted(feats)) or "other"


def run(chk):
    rng = random.Random(chk.seed)
    alpha = alphabet()
    programs, _ = gen.tlc_programs(alpha, 2 if chk.quick else 3, chk=chk, minlen=1, typed=INPUTS)
    sim, _ = gen.tlc_programs(alpha, 7, simulate=120 if chk.quick else 5000, seed=chk.seed, chk=chk, minlen=3,
                              typed=INPUTS)
    programs += [p for p in sim if len(p) >= 3]
    programs += [gen.random_program(rng, alpha, rng.randint(4, 9), typed=INPUTS) for _ in range(80 if chk.quick else 3000)]
    gram = grammar_programs(chk)
    if chk.quick:
        gram = rng.sample(gram, 900)
    programs += gram
    cases = []
    for calls in programs:
        try:
            cases.extend(build_cases(calls))
        except Exception as e:
            chk.violation("C07:lowering-exception:%s" % type(e).__name__, "lowering raised %r on [%s]"
                          % (e, progs.show_prog(calls)), {"calls": calls})
    chk.stage("rewrite")
    tl = [{k: c[k] for k in ("before", "after", "err", "origvars", "inputs", "ids_before", "ids_after")} for c in cases]
    out = tlc.judge_batch("Rewrite", tl, chunk=220, tags=("BAD", "JUDGED"), chk=chk, jobs=16)
    chk.stage("tlc_judge")
    bad = {}
    for t in out["BAD"]:
        bad.setdefault(t[1], set()).add(t[2])
    judged = {t[1] for t in out["JUDGED"]}
    for k in sorted(bad):
        c = cases[k]
        for clause in sorted(bad[k]):
            pred = predicate(c, clause) if clause != "NoError" else c["err"].split(":")[0]
            chk.violation("C07:%s:%s:%s" % (clause, c["pass"], pred),
                          "%s after %s on [%s]" % (clause, c["pass"], progs.show_prog(c["calls"])),
                          {"calls": c["calls"], "pass": c["pass"]})
    chk.coverage.update({
        "programs": len(programs),
        "evaluations": len(cases),
        "disagreements_checked": len(bad),
        "distinct_nontrivial": sum(1 for k, c in enumerate(cases) if k in judged and c["after"] != c["before"]),
        "rule": "programs = every ProgGen behaviour of depth <= %d over the %d-call 'rewrite' alphabet + simulated "
                "depth-7 and seeded 4-9 call programs + single statements of the grammar StmtGen.tla (rhs form x assignee form x "
                "loop nest x guard x keyword form; loop identifiers that resemble generated names); each lowered by the real create_ast_from_phase and rewritten by "
                "each of the four passes alone and by the pipeline; judged on all valuations of the two scalar inputs "
                "in {0,1,3}; non-trivial = the pass changed the tree and the original ran inside the fragment"
                % (2 if chk.quick else 3, len(alpha)),
        "cases_judged": len(judged), "cases_changed_by_pass": sum(1 for c in cases if c["after"] != c["before"]),
        "traces_validated_against_impl": len(cases),
        "samples": sample([{"program": progs.show_prog(c["calls"]), "pass": c["pass"],
                            "ids_after": c["ids_after"]} for c in cases if c["after"] != c["before"]], 4),
    })
    chk.assumptions += ["function symbols are interpreted by the fixed integer functions of Expr.tla (a difference "
                        "that vanishes under them would be missed)", "statement conditions are part of the semantics of "
                        "a structured phase (a wrapped statement runs iff enclosing conditions and its own hold)"]


def replay(chk, rep):
    c0 = rep["case"]
    hit = False
    for c in build_cases(c0["calls"]):
        if c["pass"] != c0["pass"]:
            continue
        print("pass", c["pass"], "ids after:", c["ids_after"], c["err"])
        for s in leaves(c["after"], []):
            print("   ", s["id"], s["kind"], s["lhs"], exprs.show(s["rhs"]) if s["rhs"] != ["none"] else s["f"], "if", exprs.show(s["guard"]))
        tl = {k: c[k] for k in ("before", "after", "err", "origvars", "inputs", "ids_before", "ids_after")}
        res = tlc.run_tlc("Rewrite", cfg="RewriteStrict", env={"CASES": tlc.write_cases([tl])}, workers=1)
        chk.add_tlc(res)
        if res.violated:
            print("TLC: %s violated" % res.violated)
            hit = True
    if hit:
        chk.violation(rep["signature"], "replayed case still violates the contract", c0)
    else:
        print("TLC: accepted")
    chk.coverage.update({"programs": 1, "evaluations": 1, "distinct_nontrivial": 2, "disagreements_checked": int(hit),
                         "samples": [progs.show_prog(c0["calls"])]})
