"""setup_cmd: parse every specification with SANY (nothing is compiled or fetched)."""
import glob
import os
import subprocess
import sys

from .tlc import JAR, SPECS


def main():
    bad = 0
    files = sorted(glob.glob(os.path.join(SPECS, "*.tla")))
    for f in files:
        p = subprocess.run(["java", "-cp", JAR, "tla2sany.SANY", os.path.basename(f)], cwd=SPECS,
                           stdout=subprocess.PIPE, stderr=subprocess.STDOUT, text=True)
        ok = p.returncode == 0 and "*** Errors" not in p.stdout and "Fatal" not in p.stdout
        print("%-28s %s" % (os.path.basename(f), "ok" if ok else "PARSE ERROR"))
        if not ok:
            print(p.stdout)
            bad += 1
    print("%d specifications parsed, %d errors" % (len(files), bad))
    return 0 if bad == 0 else 2
