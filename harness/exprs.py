"""Expressions in the interchange format of DESIGN.md appendix A and conversion to and from
pymbolic objects.  The traversals here (variables, calls) are the harness's *own* reading of
an expression and deliberately do not use dagrt's dependency mappers."""

import numbers

import numpy as np


def to_json(e):
    """pymbolic object -> JSON form.  Unknown nodes become ["x", repr] (never equal to anything)."""
    import pymbolic.primitives as p
    if isinstance(e, (bool, np.bool_)):
        return ["cb", bool(e)]
    if isinstance(e, numbers.Integral):
        return ["c", int(e)]
    if isinstance(e, numbers.Complex) and not isinstance(e, numbers.Real):
        return ["cx", int(e.real), int(e.imag)]
    if isinstance(e, numbers.Real):
        if float(e).is_integer() and abs(e) < 2 ** 30:
            return ["c", int(e)]
        return ["x", repr(e)]
    if e is None:
        return ["none"]
    if isinstance(e, str):
        return ["s", e]
    if isinstance(e, p.Variable):
        return ["v", e.name]
    if isinstance(e, np.ndarray) and e.dtype == object and e.ndim == 1:
        return ["nparr", [to_json(c) for c in e]]
    if isinstance(e, p.Sum):
        return ["sum", [to_json(c) for c in e.children]]
    if isinstance(e, p.Product):
        return ["prod", [to_json(c) for c in e.children]]
    if isinstance(e, p.Power):
        return ["pow", to_json(e.base), to_json(e.exponent)]
    if isinstance(e, p.Quotient):
        return ["quot", to_json(e.numerator), to_json(e.denominator)]
    if isinstance(e, p.FloorDiv):
        return ["fdiv", to_json(e.numerator), to_json(e.denominator)]
    if isinstance(e, p.Remainder):
        return ["rem", to_json(e.numerator), to_json(e.denominator)]
    if isinstance(e, p.Comparison):
        return ["cmp", e.operator, to_json(e.left), to_json(e.right)]
    if isinstance(e, p.LogicalAnd):
        return ["and", [to_json(c) for c in e.children]]
    if isinstance(e, p.LogicalOr):
        return ["or", [to_json(c) for c in e.children]]
    if isinstance(e, p.LogicalNot):
        return ["not", to_json(e.child)]
    if isinstance(e, p.If):
        return ["if", to_json(e.condition), to_json(e.then), to_json(e.else_)]
    if isinstance(e, p.Min):
        return ["min", [to_json(c) for c in e.children]]
    if isinstance(e, p.Max):
        return ["max", [to_json(c) for c in e.children]]
    if isinstance(e, p.Subscript):
        idx = e.index if isinstance(e.index, tuple) else (e.index,)
        return ["sub", to_json(e.aggregate), [to_json(i) for i in idx]]
    if isinstance(e, p.CallWithKwargs):
        return ["call", to_json(e.function), [to_json(a) for a in e.parameters],
                [[k, to_json(v)] for k, v in sorted(dict(e.kw_parameters).items())]]
    if isinstance(e, p.Call):
        return ["call", to_json(e.function), [to_json(a) for a in e.parameters], []]
    if isinstance(e, tuple):
        return ["tuple", [to_json(c) for c in e]]
    return ["x", repr(e)]


def from_json(j):
    import pymbolic.primitives as p
    t = j[0]
    if t == "c":
        return j[1]
    if t == "cf":                      # a float constant with an integral value (only built, never exported)
        return float(j[1])
    if t == "cb":
        return bool(j[1])
    if t == "cx":
        return complex(j[1], j[2])
    if t == "v":
        return p.Variable(j[1])
    if t == "nparr":                   # a numpy object array holding expressions (vector-valued right-hand side)
        a = np.empty(len(j[1]), dtype=object)
        for k, c in enumerate(j[1]):
            a[k] = from_json(c)
        return a
    if t == "tuple":                   # a tuple-valued argument of a call statement
        return tuple(from_json(c) for c in j[1])
    if t == "sum":
        return p.Sum(tuple(from_json(c) for c in j[1]))
    if t == "prod":
        return p.Product(tuple(from_json(c) for c in j[1]))
    if t == "pow":
        return p.Power(from_json(j[1]), from_json(j[2]))
    if t == "quot":
        return p.Quotient(from_json(j[1]), from_json(j[2]))
    if t == "fdiv":
        return p.FloorDiv(from_json(j[1]), from_json(j[2]))
    if t == "rem":
        return p.Remainder(from_json(j[1]), from_json(j[2]))
    if t == "cmp":
        return p.Comparison(from_json(j[2]), j[1], from_json(j[3]))
    if t == "and":
        return p.LogicalAnd(tuple(from_json(c) for c in j[1]))
    if t == "or":
        return p.LogicalOr(tuple(from_json(c) for c in j[1]))
    if t == "not":
        return p.LogicalNot(from_json(j[1]))
    if t == "if":
        return p.If(from_json(j[1]), from_json(j[2]), from_json(j[3]))
    if t == "min":
        return p.Min(tuple(from_json(c) for c in j[1]))
    if t == "max":
        return p.Max(tuple(from_json(c) for c in j[1]))
    if t == "sub":
        idx = tuple(from_json(i) for i in j[2])
        return p.Subscript(from_json(j[1]), idx if len(idx) != 1 else idx[0])
    if t == "call":
        f = from_json(j[1])
        args = tuple(from_json(a) for a in j[2])
        if j[3]:
            from immutabledict import immutabledict
            return p.CallWithKwargs(f, args, immutabledict({k: from_json(v) for k, v in j[3]}))
        return p.Call(f, args)
    if t == "none":
        return None
    if t == "s":
        return j[1]
    raise ValueError("cannot build %r" % (j,))


def variables(j, out=None):
    """Names of all variables an evaluation of the expression may read (function symbols in
    call position excluded)."""
    if out is None:
        out = set()
    t = j[0]
    if t == "v":
        out.add(j[1])
    elif t in ("sum", "prod", "and", "or", "min", "max", "tuple", "nparr"):
        for c in j[1]:
            variables(c, out)
    elif t in ("pow", "quot", "fdiv", "rem"):
        variables(j[1], out)
        variables(j[2], out)
    elif t == "cmp":
        variables(j[2], out)
        variables(j[3], out)
    elif t == "not":
        variables(j[1], out)
    elif t == "if":
        for c in j[1:4]:
            variables(c, out)
    elif t == "sub":
        variables(j[1], out)
        for c in j[2]:
            variables(c, out)
    elif t == "call":
        if j[1][0] != "v":
            variables(j[1], out)
        for c in j[2]:
            variables(c, out)
        for _k, c in j[3]:
            variables(c, out)
    return out


def show(j):
    """Compact printing for evidence samples and messages."""
    t = j[0]
    if t in ("c", "cb"):
        return str(j[1])
    if t == "cx":
        return "(%d+%dj)" % (j[1], j[2])
    if t == "v":
        return j[1]
    if t == "nparr":
        return "array([" + ", ".join(show(c) for c in j[1]) + "])"
    if t == "tuple":
        return "(" + ", ".join(show(c) for c in j[1]) + ",)"
    if t == "sum":
        return "(" + " + ".join(show(c) for c in j[1]) + ")"
    if t == "prod":
        return "(" + "*".join(show(c) for c in j[1]) + ")"
    if t == "pow":
        return "(%s**%s)" % (show(j[1]), show(j[2]))
    if t in ("quot", "fdiv", "rem"):
        return "(%s %s %s)" % (show(j[1]), {"quot": "/", "fdiv": "//", "rem": "%"}[t], show(j[2]))
    if t == "cmp":
        return "(%s %s %s)" % (show(j[2]), j[1], show(j[3]))
    if t in ("and", "or"):
        return "(" + (" %s " % t).join(show(c) for c in j[1]) + ")"
    if t == "not":
        return "not %s" % show(j[1])
    if t == "if":
        return "(%s if %s else %s)" % (show(j[2]), show(j[1]), show(j[3]))
    if t in ("min", "max"):
        return "%s(%s)" % (t, ", ".join(show(c) for c in j[1]))
    if t == "sub":
        return "%s[%s]" % (show(j[1]), ", ".join(show(c) for c in j[2]))
    if t == "call":
        a = [show(c) for c in j[2]] + ["%s=%s" % (k, show(v)) for k, v in j[3]]
        return "%s(%s)" % (show(j[1]), ", ".join(a))
    return repr(j)
