"""C19 -- printing an expression and parsing it back returns the same expression.

Expressions are behaviours of specs/ExprGen.tla; the real str() / dagrt.expression.parse are applied;
specs/ExprContracts.tla (RoundTrip clauses) judges under all small valuations."""

import json
import re

from . import exprgen, exprs, tlc
from .common import sample

LEVEL = "model_checking"


def floatify(j):
    """The same expression with every integer constant written as a float (["cf", n] builds float(n))."""
    if not isinstance(j, list):
        return j
    if len(j) == 2 and j[0] == "c" and isinstance(j[1], int):
        return ["cf", j[1]]
    return [floatify(x) for x in j]


def unfloat(j):
    """The integer spelling of an expression that may contain ["cf", n] nodes (what TLC is given: same values)."""
    if not isinstance(j, list):
        return j
    if len(j) == 2 and j[0] == "cf":
        return ["c", j[1]]
    return [unfloat(x) for x in j]


def roundtrip(e_json, backticks=False, floats=False):
    from dagrt.expression import parse
    built = floatify(e_json) if floats else e_json
    e = exprs.from_json(built)
    e_json = unfloat(e_json)
    s1 = str(e)
    text = s1
    if backticks:
        # backtick-quoted names denote the variable between the backticks
        text = re.sub(r"(<\w+>\w*|\b[xy]\b)", lambda m: "`%s`" % m.group(1), s1)     # tag-only names (<t>, <dt>) too
    case = {"kind": "roundtrip", "e": e_json, "s1": s1, "s2": "", "p": ["none"], "err": "",
            "vars": exprgen.data_vars(e_json), "text": text, "backticks": backticks, "floats": floats, "built": built}
    try:
        p = parse(text)
        case["p"] = exprs.to_json(p)
        case["s2"] = str(p)
    except Exception as ex:
        case["err"] = type(ex).__name__
    return case


def shape_predicate(e):
    """Structural predicate naming the construct that explains a failed round trip."""
    found = set()

    def walk(j):
        t = j[0]
        if t == "pow" and j[1][0] == "pow":
            found.add("power-with-power-as-base")
        if t == "pow" and j[1][0] == "prod" and j[1][1] and j[1][1][0] == ["c", -1]:
            found.add("power-of-negated-base")
        if t == "pow" and j[1][0] == "c" and j[1][1] < 0:
            found.add("power-of-negative-constant")
        if t in ("min", "max"):
            found.add("min-max-node")
        if t == "if":
            found.add("conditional-expression")
        if t == "call" and any(a[0] == "if" for a in (list(j[2]) + [v for _k, v in j[3]])[:-1]):
            found.add("conditional-in-argument-list")      # any argument (positional or keyword value) that a comma follows
        if t in ("min", "max") and any(a[0] == "if" for a in j[1][:-1]):
            found.add("conditional-in-argument-list")
        if t == "not":
            found.add("logical-not")
        if t == "cmp":
            found.add("comparison")
        if t == "quot" and j[2][0] in ("quot", "prod"):
            found.add("quotient-with-compound-denominator")
        for x in j[1:]:
            if isinstance(x, list) and x and isinstance(x[0], str) and len(x) > 1:
                walk(x)
            elif isinstance(x, list):
                for y in x:
                    if isinstance(y, list) and y:
                        if isinstance(y[0], str) and len(y) > 1 and isinstance(y[1], (list, int, str, bool)):
                            try:
                                walk(y if y[0] not in ("k",) else y[1])
                            except Exception:
                                pass
    walk(e)
    # one primary explanation, by priority (keeps finding signatures narrow and few)
    if "conditional-in-argument-list" in found:
        return ["conditional-in-argument-list"]
    for name in ("power-with-power-as-base", "min-max-node", "power-of-negated-base", "quotient-with-compound-denominator",
                 "power-of-negative-constant", "conditional-expression", "logical-not", "comparison"):
        if name in found:
            return [name]
    return []


def run(chk):
    maxt = 4 if chk.quick else 5
    es = exprgen.generate(chk, maxt, full=True, roots=("a", "b"))
    n_exh = len(es)
    es += exprgen.generate(chk, 9, full=True, roots=("a", "b"), simulate=400 if chk.quick else 20000, depth=10)
    # every interesting form in every syntactic position (positions the bounded enumeration does not reach)
    X, Yv, Z = ["v", "x"], ["v", "y"], ["v", "<state>z"]
    lt = ["cmp", "<", X, ["c", 1]]
    inner = [["if", lt, X, Yv], lt, ["not", lt], ["and", [lt, ["cmp", ">", Yv, ["c", 0]]]], ["pow", X, ["c", 2]],
             ["sum", [X, ["c", -1]]], ["prod", [["c", -1], X]], ["prod", [X, Yv]], ["quot", X, Yv], ["c", -2], Z,
             ["call", ["v", "<func>f"], [X], [["k", Yv]]], ["sub", ["v", "arr"], [X]], ["min", [X, Yv]],
             ["v", "<cond>"], ["v", "<t>"], ["v", "<dt>"], ["v", "<cond>_0"]]          # names that consist of a tag only
    boolean = {1, 2, 3, 14, 17}
    for k, e in enumerate(inner):
        if k in boolean:
            ctxs = [["if", e, X, Yv], ["not", e], ["and", [e, lt]], ["or", [lt, e]], ["and", [["not", e], lt]],
                    ["or", [e, lt]], ["and", [lt, e]], ["if", ["and", [e, lt]], Yv, X]]
        else:
            ctxs = [["call", ["v", "<func>g"], [e, Yv], []], ["call", ["v", "<func>g"], [Yv, e], []],
                    ["call", ["v", "<func>f"], [Yv], [["k", e]]], ["call", ["v", "<func>f"], [e], [["k", Yv]]],
                    ["sub", ["v", "arr"], [e]], ["sum", [e, Yv]], ["sum", [Yv, e]], ["prod", [e, Yv]], ["prod", [Yv, e]],
                    ["pow", e, ["c", 2]], ["pow", ["c", 2], e], ["quot", e, Yv], ["quot", Yv, e], ["if", lt, e, Yv],
                    ["if", lt, Yv, e], ["cmp", "<", e, Yv], ["cmp", ">=", Yv, e], ["min", [e, Yv]], ["prod", [["c", -1], e]]]
        es.extend(ctxs)
    # siblings that differ only in the spelling of a constant (2 vs 2.0) inside ONE expression
    small = [e for e in es[:n_exh] if e[0] not in ("c", "v", "cmp", "and", "or", "not") and '"c"' in json.dumps(e)
             and len(json.dumps(e)) < 90]
    sib = []
    for e in small[::1 if not chk.quick else 3]:
        f = floatify(e)
        sib += [["sum", [e, f]], ["sum", [f, e]], ["call", ["v", "<func>g"], [e, f], []], ["prod", [f, ["sum", [e, ["c", 1]]]]]]
    cases = [roundtrip(e) for e in sib]
    n_sib = len(cases)
    for k, e in enumerate(es):
        cases.append(roundtrip(e))
        if k % 5 == 0:
            cases.append(roundtrip(e, backticks=True))
        if k % 3 == 0 and '"c"' in json.dumps(e):
            # the same expression with float constants, parsed in the same process after the integer form
            cases.append(roundtrip(e, floats=True))
    chk.stage("roundtrip")
    tl = [{k: c[k] for k in ("kind", "e", "s1", "s2", "p", "err", "vars")} for c in cases]
    out = tlc.judge_batch("ExprContracts", tl, chunk=1500, chk=chk, jobs=12)
    chk.stage("tlc_judge")
    bad = {}
    for t in out["BAD"]:
        bad.setdefault(t[1], set()).add(t[2])
    for k in sorted(bad):
        c = cases[k]
        pred = shape_predicate(c["e"])
        for clause in sorted(bad[k]):
            chk.violation("C19:%s:%s" % (clause, "+".join(pred) or ("other:backticks" if c["backticks"] else "other:float-constants" if c.get("floats") else "other")),
                          "%s: e = %s prints %r, parse(%r) -> %s prints %r" % (
                              clause, exprs.show(c["e"]), c["s1"], c["text"], c["err"] or exprs.show(c["p"]), c["s2"]),
                          {"e": c.get("built", c["e"]), "backticks": c["backticks"], "floats": False})
    chk.coverage.update({
        "evaluations": len(cases),
        "distinct_nontrivial": sum(1 for c in cases if len(c["vars"]) >= 1 and c["e"][0] not in ("v", "c")),
        "rule": "expressions = every ExprGen behaviour with <= %d nodes (arithmetic and boolean roots: sums, products, "
                "powers, quotients, calls with keyword arguments, subscripts, min/max, comparisons, logical "
                "operators, conditional expressions, tagged identifiers) + simulated ones up to 9 nodes; every fifth "
                "also with backtick-quoted names; judged under all valuations in {-1,0,2}^vars (6 patterns beyond 3 "
                "variables) x 2 function interpretations; non-trivial = compound with a variable" % maxt,
        "exhaustive": True, "exhaustive_scope": "all expressions up to %d nodes" % maxt,
        "expressions_exhaustive": n_exh, "cases_with_violation": len(bad),
        "parse_errors": sum(1 for c in cases if c["err"]),
        "traces_validated_against_impl": len(cases),
        "samples": sample([{"e": exprs.show(c["e"]), "printed": c["s1"], "reparsed": c["s2"]} for c in cases], 5),
    })
    chk.assumptions += ["values are compared on integers and booleans only (quotients are checked structurally: "
                        "variables and second print)", "the printer is pymbolic's StringifyMapper as used by str()"]


def replay(chk, rep):
    c = roundtrip(rep["case"]["e"], rep["case"].get("backticks", False), rep["case"].get("floats", False))
    print("e  =", exprs.show(c["e"]))
    print("s1 =", c["s1"], "| parsed text =", c["text"])
    print("p  =", c["err"] or exprs.show(c["p"]), "| s2 =", c["s2"])
    path = tlc.write_cases([{k: c[k] for k in ("kind", "e", "s1", "s2", "p", "err", "vars")}])
    res = tlc.run_tlc("ExprContracts", cfg="ExprContractsStrict", env={"CASES": path}, workers=1)
    chk.add_tlc(res)
    if res.violated:
        print("TLC: %s violated" % res.violated)
        chk.violation(rep["signature"], "replayed case still violates %s" % res.violated, rep["case"])
    else:
        print("TLC: accepted")
    chk.coverage.update({"evaluations": 1, "distinct_nontrivial": 2, "samples": [c["s1"]]})
