"""Compiling and running modules emitted by the real Fortran generator: a generated driver program
calls initialize, then run k times -- printing every field of the state type after each call -- and
shutdown.  Nothing in the generator is instrumented; field names come from its name manager."""

import math
import os
import shutil
import subprocess
import tempfile

from . import fprofile, stepper

FC = os.environ.get("FC", "gfortran")


def generate(method, module="dagrtmod"):
    """Run the real generator.  Returns (source text, info) where info lists the state fields."""
    code = stepper.build_code(method)
    cg = fprofile.fortran_generator(module)
    text = cg(code)
    nm = cg.name_manager
    fields = {}
    for key in list(nm.global_map):
        fields[key] = nm.name_global(key)
    phases = sorted(code.phases)
    return text, {"fields": fields, "phases": phases, "initial": code.initial_phase}


def kinds_of_fields(text):
    """Field declarations of dagrt_state_type: name -> 'scalar' | 'vector' | 'refcnt' | 'int'."""
    out = {}
    inside = False
    for ln in text.split("\n"):
        s = ln.strip()
        if s.startswith("type dagrt_state_type"):
            inside = True
            continue
        if inside and s.startswith("end type"):
            break
        if not inside or not s or s.startswith("!"):
            continue
        name = s.split("::")[-1].split()[-1] if "::" in s else s.split()[-1]
        if "dagrt_refcnt" in name:
            out[name] = "refcnt"
        elif "pointer" in s and "dimension" in s:
            out[name] = "vector"
        elif s.startswith("integer"):
            out[name] = "int"
        elif s.startswith("logical"):
            out[name] = "logical"
        else:
            out[name] = "scalar"
    return out


def driver(info, text, inputs, ncalls, module="dagrtmod"):
    """Driver source.  inputs: IR name -> int or list of ints."""
    fk = kinds_of_fields(text)
    L = []
    A = L.append
    A("program verif_driver")
    A("  use %s, only: dagrt_state_type, vinit => initialize, vrun => run, vshutdown => shutdown" % module)
    A("  implicit none")
    A("  type(dagrt_state_type), target :: dagrt_state")
    A("  type(dagrt_state_type), pointer :: dagrt_state_ptr")
    A("  integer :: istep")
    args = ["dagrt_state=dagrt_state_ptr"]
    for key, val in sorted(inputs.items()):
        ident = info["fields"].get(key)
        if ident is None or ident not in fk:
            continue
        if isinstance(val, list):
            A("  real*8, dimension(%d) :: in_%s" % (len(val), ident))
        args.append("%s=%s" % (ident, "in_" + ident if isinstance(val, list) else "%d.0d0" % val))
    A("  dagrt_state_ptr => dagrt_state")
    for key, val in sorted(inputs.items()):
        ident = info["fields"].get(key)
        if ident is None or ident not in fk or not isinstance(val, list):
            continue
        for k, x in enumerate(val):
            A("  in_%s(%d) = %d.0d0" % (ident, k + 1, x))
    A("  call vinit(%s)" % ", &\n    ".join(args))
    A("  do istep = 1, %d" % ncalls)
    A("    call vrun(dagrt_state=dagrt_state_ptr)")
    A("    write(*,'(A,I4)') 'STEP ', istep")
    for name, kind in sorted(fk.items()):
        if kind == "refcnt":
            continue
        if kind == "vector":
            A("    if (associated(dagrt_state%%%s)) then" % name)
            A("      write(*,'(A,100ES26.16E3)') 'FIELD %s ', dagrt_state%%%s" % (name, name))
            A("    else")
            A("      write(*,'(A)') 'FIELD %s NULL'" % name)
            A("    end if")
        elif kind == "int":
            A("    write(*,'(A,I12)') 'FIELD %s ', dagrt_state%%%s" % (name, name))
        elif kind == "logical":
            A("    write(*,'(A,L2)') 'FIELD %s ', dagrt_state%%%s" % (name, name))
        else:
            A("    write(*,'(A,ES26.16E3)') 'FIELD %s ', dagrt_state%%%s" % (name, name))
    A("  end do")
    A("  call vshutdown(dagrt_state=dagrt_state_ptr)")
    A("  write(*,'(A)') 'SHUTDOWN-DONE'")
    A("end program")
    return "\n".join(L) + "\n"


def compile_and_run(sources, flags=(), timeout=60, env=None, keep=None):
    """sources: [(filename, text)].  Returns dict(compile_rc, compile_out, rc, stdout, stderr)."""
    d = tempfile.mkdtemp(prefix="verif_f_")
    try:
        names = []
        for n, t in sources:
            with open(os.path.join(d, n), "w") as f:
                f.write(t)
            names.append(n)
        p = subprocess.run([FC, "-g", "-O0", "-ffree-line-length-none", "-o", "prog"] + list(flags) + names,
                           cwd=d, stdout=subprocess.PIPE, stderr=subprocess.STDOUT, text=True, timeout=120)
        res = {"compile_rc": p.returncode, "compile_out": p.stdout[-3000:], "rc": None, "stdout": "", "stderr": ""}
        if p.returncode != 0:
            return res
        e = dict(os.environ)
        e.update(env or {})
        try:
            r = subprocess.run([os.path.join(d, "prog")], cwd=d, stdout=subprocess.PIPE, stderr=subprocess.PIPE, text=True,
                               timeout=timeout, env=e)
            res.update(rc=r.returncode, stdout=r.stdout, stderr=r.stderr)
        except subprocess.TimeoutExpired:
            res.update(rc=-9, stderr="timeout")
        return res
    finally:
        if keep:
            shutil.copytree(d, keep, dirs_exist_ok=True)
        shutil.rmtree(d, ignore_errors=True)


def _num(tok):
    try:
        x = float(tok)
    except ValueError:
        return ["x", tok]
    if math.isnan(x):
        return ["n"]
    if abs(x) < 2 ** 30 and x == int(x):
        return ["i", int(x)]
    return ["x", tok]


def parse_steps(stdout):
    """stdout of the driver -> list of {field: tagged value}."""
    steps = []
    cur = None
    for ln in stdout.split("\n"):
        if ln.startswith("STEP"):
            cur = {}
            steps.append(cur)
        elif ln.startswith("FIELD") and cur is not None:
            parts = ln.split()
            name, vals = parts[1], parts[2:]
            if vals == ["NULL"]:
                cur[name] = ["n"]
            elif len(vals) == 1 and vals[0] in ("T", "F"):
                cur[name] = ["b", vals[0] == "T"]
            elif len(vals) == 1:
                cur[name] = _num(vals[0])
            else:
                xs = [_num(v) for v in vals]
                cur[name] = ["a", [x[1] for x in xs]] if all(x[0] == "i" for x in xs) else ["x", " ".join(vals)]
    return steps
