"""C10 -- well-formedness verification accepts exactly the well-formed methods.

Methods (well- and ill-formed) are behaviours of specs/MethodGen.tla plus random larger ones; the
real verify_code and, for accepted methods, the interpreter and both generators are run on each;
specs/Verify.tla holds the definition of well-formedness and judges the recorded outcomes."""

import multiprocessing
import random
import signal

from . import tlc
from .common import NCPU, sample

LEVEL = "model_checking"


def from_gen(g):
    """MethodGen dump -> general method description."""
    na = g["na"]
    sid = lambda k: ("a%d" % k) if k <= na else "b1"       # noqa: E731
    deps = {k: [] for k in range(1, na + 2)}
    for i, j in g["edges"]:
        deps[i].append(sid(j))
    for i, t in g["extra"]:
        deps[i].append("missing_stmt" if t == 0 else sid(t))
    if g["back"]:
        deps[na + 1].append("a1")
    sw = {}
    if g["switch"]:
        sw[g["switch"][0]] = g["switch"][1] if g["switch"][1] != "missing" else "no_such_phase"
    a = [{"id": sid(k), "deps": deps[k], "switch": sw.get(k, ""),
          "flag": "<cond>f" if k in g["flagw"] and k not in sw else ""} for k in range(1, na + 1)]
    b = [{"id": "b1", "deps": deps[na + 1], "switch": "", "flag": "<cond>f" if (na + 1) in g["flagw"] else ""}]
    return {"phases": [{"name": "A", "stmts": a}, {"name": "B", "stmts": b}]}


def random_method(rng):
    nph = rng.randint(1, 3)
    names = ["P%d" % k for k in range(nph)]
    phases = []
    all_ids = []
    for p in range(nph):
        n = rng.randint(1, 10 if nph == 1 else 5)
        ids = ["%s_s%d" % (names[p].lower(), k) for k in range(n)]
        all_ids.append(ids)
        phases.append({"name": names[p], "stmts": [{"id": i, "deps": [], "switch": "", "flag": ""} for i in ids]})
    mode = rng.choice(["dag", "dag", "cycle", "dangling", "cross", "switch", "flag", "mixed"])
    for p, ph in enumerate(phases):
        ids = all_ids[p]
        order = ids[:]
        rng.shuffle(order)
        for k, s in enumerate(ph["stmts"]):
            pos = order.index(s["id"])
            s["deps"] = sorted(rng.sample(order[:pos], rng.randint(0, min(3, pos))))
    ph = rng.choice(phases)
    if mode in ("cycle", "mixed") and len(ph["stmts"]) >= 1:
        # close a cycle of random length along existing or new edges
        ids = [s["id"] for s in ph["stmts"]]
        L = rng.randint(1, len(ids))
        cyc = rng.sample(ids, L)
        by = {s["id"]: s for s in ph["stmts"]}
        for k in range(L):
            d = by[cyc[k]]["deps"]
            if cyc[(k + 1) % L] not in d:
                d.append(cyc[(k + 1) % L])
    if mode in ("dangling", "mixed"):
        rng.choice(ph["stmts"])["deps"].append("missing_stmt")
    if mode in ("cross", "mixed") and nph > 1:
        other = rng.choice([q for q in phases if q is not ph])
        rng.choice(ph["stmts"])["deps"].append(rng.choice(other["stmts"])["id"])
    if mode in ("switch", "mixed"):
        rng.choice(ph["stmts"])["switch"] = rng.choice(names + ["no_such_phase"])
    if mode in ("flag", "mixed"):
        for s in rng.sample(ph["stmts"], min(len(ph["stmts"]), rng.randint(1, 3))):
            if not s["switch"]:
                s["flag"] = rng.choice(["<cond>f", "<cond>g"])
    return {"phases": phases}


def build(method):
    from dagrt.language import Assign, DAGCode, ExecutionPhase, SwitchPhase
    phases = {}
    for ph in method["phases"]:
        stmts = []
        for k, s in enumerate(ph["stmts"]):
            if s["switch"]:
                stmts.append(SwitchPhase(id=s["id"], next_phase=s["switch"], depends_on=s["deps"]))
            else:
                stmts.append(Assign(id=s["id"], assignee=s["flag"] or "x_%s" % s["id"], assignee_subscript=(),
                                    expression=bool(k % 2) if s["flag"] else k, depends_on=s["deps"]))
        phases[ph["name"]] = ExecutionPhase(ph["name"], ph["name"], frozenset(stmts))
    return DAGCode(phases, method["phases"][0]["name"])


class _Timeout(Exception):
    pass


def _alarm(_sig, _frm):
    raise _Timeout()


def observe(method):
    """What the real code does with the method."""
    import sys
    from dagrt.codegen.analysis import CodeGenerationError, verify_code
    sys.setrecursionlimit(400)
    out = {"verify": "", "nmsgs": 0, "consumers": []}
    try:
        code = build(method)
    except Exception as e:
        out["verify"] = "build:" + type(e).__name__
        return out
    signal.signal(signal.SIGALRM, _alarm)
    signal.alarm(10)
    try:
        verify_code(code)
        out["verify"] = "accepted"
    except CodeGenerationError as e:
        out["verify"] = "CodeGenerationError"
        out["nmsgs"] = len(e.errors)
    except _Timeout:
        out["verify"] = "timeout"
    except BaseException as e:
        out["verify"] = "other:" + type(e).__name__
    finally:
        signal.alarm(0)
    if out["verify"] != "accepted":
        return out

    def interp():
        from dagrt.exec_numpy import NumpyInterpreter
        for ph in method["phases"]:
            it = NumpyInterpreter(code, {})
            it.set_up(0, 1, {})
            it.next_phase = ph["name"]
            for _ev in it.run(max_steps=1):
                pass

    def pygen():
        from dagrt.codegen.python import CodeGenerator
        CodeGenerator("C")(code)

    def fgen():
        from dagrt.codegen.fortran import CodeGenerator
        CodeGenerator("m", user_type_map={})(code)

    for name, fn in (("interpreter", interp), ("python", pygen), ("fortran", fgen)):
        signal.alarm(20)
        try:
            fn()
            out["consumers"].append([name, "ok"])
        except _Timeout:
            out["consumers"].append([name, "timeout"])
        except BaseException as e:
            out["consumers"].append([name, type(e).__name__])
        finally:
            signal.alarm(0)
    return out


def _obs(method):
    from .common import use_repo
    use_repo()
    return observe(method)


def features(m):
    """Structural predicate of a method for finding signatures (diagnosis only)."""
    f = set()
    names = {p["name"] for p in m["phases"]}
    allids = {s["id"] for p in m["phases"] for s in p["stmts"]}
    for p in m["phases"]:
        ids = {s["id"] for s in p["stmts"]}
        for s in p["stmts"]:
            for d in s["deps"]:
                if d == s["id"]:
                    f.add("self-loop")
                elif d in ids:
                    pass
                elif d in allids:
                    f.add("cross-phase-edge")
                else:
                    f.add("dangling-edge")
            if s["switch"] and s["switch"] not in names:
                f.add("missing-switch-target")
        flags = [s["flag"] for s in p["stmts"] if s["flag"]]
        if len(flags) != len(set(flags)):
            f.add("flag-redefined")
    return sorted(f)


def judge(chk, cases):
    out = tlc.judge_batch("Verify", cases, chunk=5000, tags=("BAD", "WF"), chk=chk)
    bad = {}
    for t in out["BAD"]:
        bad.setdefault(t[1], set()).add((t[2], t[3]))
    wf = sum(1 for t in out["WF"] if t[2])
    if len(out["WF"]) != len(cases):
        raise tlc.MachineryError("Verify batch judged %d of %d cases" % (len(out["WF"]), len(cases)))
    for k in sorted(bad):
        c = cases[k]
        for clause, which in sorted(bad[k]):
            fs = features(c["method"])
            sig = "C10:%s:%s:%s:%s" % (clause, which, c["outcome"]["verify"], "+".join(fs) or "none")
            if clause == "ConsumersSafe":
                sig = "C10:ConsumersSafe:" + ",".join("%s=%s" % (a, b) for a, b in c["outcome"]["consumers"] if b != "ok")
            chk.violation(sig, "verify_code outcome %s on a %s method (%s): %s" % (
                c["outcome"], which, ", ".join(fs) or "no special feature", c["method"]), c["method"])
    return bad, wf


def run(chk):
    rng = random.Random(chk.seed)
    gens = [(3, 1), (2, 3)] if chk.quick else [(3, 2), (2, 3), (4, 0)]
    methods = []
    for na, budget in gens:
        cfg = tlc.temp_cfg("CONSTANTS\n NA = %d\n Budget = %d\nINIT Init\nNEXT Next\n"
                           "CHECK_DEADLOCK FALSE\nINVARIANT Dump\n" % (na, budget))
        res = tlc.run_tlc("MethodGen", cfg=cfg, workers=4, timeout=1800)
        chk.add_tlc(res)
        methods += [from_gen(g) for g in res.json_lines("GEN")]
    # statement ids are unique within a phase only: every generated phase A next to a phase with the SAME ids and no
    # edges (before it and after it in the phases mapping), and next to a copy of itself
    shared = []
    for m in methods[::1 if not chk.quick else 2]:
        a = m["phases"][0]
        if not any(s["deps"] or s["flag"] or s["switch"] for s in a["stmts"]):
            continue
        clean = lambda nm: {"name": nm, "stmts": [{"id": s["id"], "deps": [], "switch": "", "flag": ""} for s in a["stmts"]]}   # noqa: E731
        shared.append({"phases": [a, clean("Z")]})
        shared.append({"phases": [clean("0"), a]})
        shared.append({"phases": [a, dict(a, name="A2")]})
    methods += shared
    n_gen = len(methods)
    methods += [random_method(rng) for _ in range(1500 if chk.quick else 30000)]
    chk.stage("generate")
    with multiprocessing.Pool(NCPU) as pool:
        outcomes = pool.map(_obs, methods, chunksize=200)
    chk.stage("observe")
    cases = [{"method": m, "outcome": o} for m, o in zip(methods, outcomes)]
    bad, wf = judge(chk, cases)
    chk.stage("tlc_judge")
    accepted = sum(1 for c in cases if c["outcome"]["verify"] == "accepted")
    chk.coverage.update({
        "evaluations": len(cases),
        "distinct_nontrivial": len(cases) - sum(1 for c in cases if not features(c["method"])
                                                and all(not s["deps"] for p in c["method"]["phases"] for s in p["stmts"])),
        "rule": "methods = all MethodGen behaviours for (NA, feature budget) in %s: every edge set inside "
                "a phase incl. self-loops and cycles x dangling / cross-phase edges x switch targets x flag "
                "writers within the budget, + random methods with up to 10 statements / 3 phases; "
                "non-trivial = has at least one edge or special feature" % (gens,),
        "exhaustive": True,
        "exhaustive_scope": "all MethodGen methods for the listed (NA, budget) pairs",
        "methods_generated": n_gen, "methods_random": len(cases) - n_gen,
        "wellformed_by_spec": wf, "accepted_by_code": accepted,
        "consumer_runs": sum(len(c["outcome"]["consumers"]) for c in cases),
        "cases_with_violation": len(bad),
        "traces_validated_against_impl": len(cases),
        "samples": sample([{"method": c["method"], "outcome": c["outcome"]} for c in cases[::97]], 4),
    })
    chk.assumptions += ["statements are plain assignments / phase switches; other statement kinds do not "
                        "influence verify_code"]


def replay(chk, rep):
    from .common import use_repo
    use_repo()
    m = rep["case"]
    o = observe(m)
    print("method:", m)
    print("outcome:", o)
    path = tlc.write_cases([{"method": m, "outcome": o}])
    res = tlc.run_tlc("Verify", cfg="VerifyStrict", env={"CASES": path}, workers=1)
    chk.add_tlc(res)
    if res.violated:
        print("TLC: %s violated" % res.violated)
        chk.violation(rep["signature"], "replayed case still violates %s" % res.violated, m)
    else:
        print("TLC: no violation on this case")
    chk.coverage.update({"evaluations": 1, "distinct_nontrivial": 1, "samples": [m]})
