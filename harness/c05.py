"""C05 -- lowering a phase to structured code keeps order, guards and loops.

Phases are behaviours of specs/PhaseGen.tla (all DAG shapes x guards x loop nests x no-ops up to a
size bound) and the phases that the real CodeBuilder produces for ProgGen programs.  The real
create_ast_from_phase is run on several presentations of each phase (permuted lists, frozenset,
another hash seed in a subprocess); specs/Lower.tla judges the trees under every guard valuation."""

import itertools
import json
import os
import random
import subprocess
import sys

from . import exprs, gen, progs, tlc, trees
from .common import NCPU, REPO, VERIF, sample

LEVEL = "model_checking"

C = ["v", "<cond>c"]
D = ["v", "<cond>d"]
GUARDS = [["cb", True], C, ["not", C], ["and", [C, D]]]
LOOPS = [[], [["i", ["c", 0], ["v", "n"]]],
         [["i", ["c", 0], ["v", "n"]], ["j", ["v", "i"], ["c", 3]]]]


def phase_case(recs):
    """PhaseGen behaviour -> case with explicit guard/loop JSON."""
    stmts = []
    for k, r in enumerate(recs):
        stmts.append({"deps": sorted(r["deps"]), "nop": bool(r["nop"]),
                      "guard": GUARDS[r["guard"] - 1] if not r["nop"] else ["cb", True],
                      "loops": LOOPS[r["loops"] - 1] if not r["nop"] else []})
    return {"stmts": stmts, "src": "phasegen"}


def sid(case, k):
    """Statement k's id: relabelled cases spell ids so that their sorted order is a permutation."""
    lab = case.get("labels")
    return "s%d" % (lab[k - 1] if lab else k)


def real_statements(case):
    from dagrt.language import Assign, Nop
    out = []
    for k, s in enumerate(case["stmts"], 1):
        deps = [sid(case, d) for d in s["deps"]]
        if s["nop"]:
            out.append(Nop(id=sid(case, k), depends_on=deps))
        else:
            g = s["guard"]
            cond = True if g == ["cb", True] else exprs.from_json(g)
            loops = [(i, exprs.from_json(lo), exprs.from_json(hi)) for i, lo, hi in s["loops"]]
            out.append(Assign(id=sid(case, k), assignee="x%d" % k,
                              assignee_subscript=(exprs.from_json(["v", "i"]),) if loops else (),
                              expression=k, loops=loops, condition=cond, depends_on=deps))
    return out


def presentations(n, rng, limit):
    perms = list(itertools.permutations(range(n)))
    if len(perms) > limit:
        perms = [perms[0], perms[-1]] + rng.sample(perms[1:-1], limit - 2)
    return perms


def lower(stmts, container):
    from dagrt.codegen.dag_ast import create_ast_from_phase
    from dagrt.language import DAGCode, ExecutionPhase
    phase = ExecutionPhase(name="main", next_phase="main", statements=container(stmts))
    code = DAGCode(phases={"main": phase}, initial_phase="main")
    return create_ast_from_phase(code, "main")


def lower_case(case, perms, stmts=None, leaf_id=None):
    """Trees for the presentations of one case (or the exception class)."""
    stmts = stmts or real_statements(case)
    back = {sid(case, k): k for k in range(1, len(case["stmts"]) + 1)}
    leaf_id = leaf_id or (lambda st: back[st.id])
    out = []
    try:
        for p in perms:
            out.append(trees.export(lower([stmts[i] for i in p], list), leaf_id))
        out.append(trees.export(lower(stmts, frozenset), leaf_id))
        out.append(trees.export(lower(stmts[::-1], frozenset), leaf_id))
        return out, ""
    except Exception as e:
        return [["N"]], type(e).__name__


def other_seed_trees(cases, seed):
    """Re-lower every case in a subprocess with a different PYTHONHASHSEED (frozenset presentation)."""
    inp = tlc.write_cases([{"stmts": c["stmts"], "src": c["src"], "labels": c.get("labels")} for c in cases],
                          prefix="c05in_")
    outp = inp + ".out"
    tlc._scratch.append(outp)
    env = dict(os.environ, PYTHONHASHSEED=str(seed), DAGRT_REPO=REPO)
    subprocess.run([sys.executable, "-c",
                    "import sys; sys.path.insert(0, %r); from harness import c05; c05.worker(%r, %r)"
                    % (VERIF, inp, outp)], check=True, env=env, cwd=VERIF)
    with open(outp) as f:
        return json.load(f)


def worker(inp, outp):
    from .common import use_repo
    use_repo()
    with open(inp) as f:
        cases = json.load(f)
    import multiprocessing
    with multiprocessing.Pool(NCPU) as pool:
        out = pool.map(_worker_one, cases, chunksize=200)
    with open(outp, "w") as f:
        json.dump(out, f)


def _worker_one(c):
    if c["src"] != "phasegen":
        return None
    try:
        back = {sid(c, k): k for k in range(1, len(c["stmts"]) + 1)}
        return trees.export(lower(real_statements(c), frozenset), lambda st: back[st.id])
    except Exception as e:
        return ["X", type(e).__name__]


def builder_cases(chk, rng):
    """Phases produced by the real CodeBuilder for ProgGen programs (real guards = real flags)."""
    from . import c02
    alpha = c02.alphabet("quick")
    programs, _ = gen.tlc_programs(alpha, 3 if chk.quick else 4, minlen=2, chk=chk)
    if len(programs) > (1500 if chk.quick else 30000):
        programs = rng.sample(programs, 1500 if chk.quick else 30000)
    programs += [gen.random_program(rng, alpha, rng.randint(5, 10)) for _ in range(100 if chk.quick else 3000)]
    out = []
    for calls in programs:
        cb, _info = progs.replay_calls("main", calls)
        real = list(cb.statements)
        index = {s.id: k + 1 for k, s in enumerate(real)}
        stmts = []
        for s in real:
            loops = [[i, exprs.to_json(lo), exprs.to_json(hi)] for i, lo, hi in getattr(s, "loops", [])]
            stmts.append({"deps": sorted(index[d] for d in s.depends_on), "nop": False,
                          "guard": exprs.to_json(s.condition), "loops": loops})
        case = {"stmts": stmts, "src": "builder", "calls": calls}
        perms = presentations(len(real), rng, 3)
        case["trees"], case["err"] = lower_case(case, perms, real, lambda st: index[st.id])
        out.append(case)
    return out


def judge(chk, cases):
    bad = {}
    for t in tlc.judge_batch("Lower", cases, chk=chk)["BAD"]:
        bad.setdefault(t[1], set()).add(t[2])
    for k in sorted(bad):
        c = cases[k]
        for clause in sorted(bad[k]):
            sig = "C05:%s:%s" % (clause, c["src"]) + (":" + c["err"] if clause == "NoError" else "")
            desc = progs.show_prog(c["calls"]) if "calls" in c else json.dumps(c["stmts"])
            chk.violation(sig, "create_ast_from_phase violates %s on %s -> %s"
                          % (clause, desc, trees.show(c["trees"][0])), {k2: c[k2] for k2 in c if k2 != "trees"})
    return bad


def run(chk):
    rng = random.Random(chk.seed)
    maxn = 3 if chk.quick else 4
    cfg = tlc.temp_cfg("CONSTANTS\n MaxN = %d\n NGuards = 4\n NLoops = 3\n FullUpTo = 3\n"
                       "INIT Init\nNEXT Next\nCHECK_DEADLOCK FALSE\nINVARIANT Dump\n" % maxn)
    res = tlc.run_tlc("PhaseGen", cfg=cfg, timeout=1800)
    chk.add_tlc(res)
    rows = [(r, None) for r in res.json_lines("GEN")]
    del res
    # one statement more over a reduced catalogue (guards true/c/not c, no loops, no-ops, every dependency
    # set), each under two random relabellings of the ids (the lowering sorts ids)
    cfg2 = tlc.temp_cfg("CONSTANTS\n MaxN = %d\n NGuards = 3\n NLoops = 1\n FullUpTo = %d\n"
                        "INIT Init\nNEXT Next\nCHECK_DEADLOCK FALSE\nINVARIANT Dump\n" % (maxn + 1, maxn + 1))
    res2 = tlc.run_tlc("PhaseGen", cfg=cfg2, timeout=1800)
    chk.add_tlc(res2)
    big = [r for r in res2.json_lines("GEN") if len(r) == maxn + 1]
    del res2
    n_big = len(big)
    if len(big) > 200000:                       # thorough tier: the five-statement phases are sampled
        big = rng.sample(big, 200000)
    for r in big:
        for _ in range(2):
            lab = list(range(1, len(r) + 1))
            rng.shuffle(lab)
            rows.append((r, lab))
    del big
    # runs of conditionals: chains of 3-5 statements (program order forced by the edges) over the guards
    # {true, c, not c, d, not d, c and d}: adjacent equal / complementary guards are what the lowering merges
    ND = ["not", D]
    gpool = [["cb", True], C, ["not", C], D, ND, ["and", [C, D]]]
    for n in (3, 4, 5):
        combos = list(itertools.product(range(len(gpool)), repeat=n))
        if n == 5:
            combos = rng.sample(combos, 1500 if chk.quick else len(combos))
        for combo in combos:
            rows.append(({"stmts": [{"deps": [k] if k else [], "nop": False, "guard": gpool[g], "loops": []}
                                    for k, g in enumerate(combo)], "src": "phasegen"}, "case"))
    # hand-written guards with nested negations (the builder never produces them): every parity up to three, next to
    # plain and singly negated guards on the same flag
    NN = lambda x, k: x if k == 0 else ["not", NN(x, k - 1)]      # noqa: E731
    for combo in itertools.product(range(4), repeat=3):
        if max(combo) >= 2:
            rows.append(({"stmts": [{"deps": [k] if k else [], "nop": False, "guard": NN(C, g), "loops": []}
                                    for k, g in enumerate(combo)], "src": "phasegen"}, "case"))
    n_gen = len(rows)
    chk.stage("phasegen")
    seeds = [1] if chk.quick else [1, 2]
    import multiprocessing
    n_trees = nontrivial = n_bad = 0
    samples = []
    CHUNK = 150000                              # bounds the memory of the thorough tier
    for lo in range(0, len(rows), CHUNK):
        cases = []
        for r, lab in rows[lo:lo + CHUNK]:
            if lab == "case":
                cases.append(r)
                continue
            c = phase_case(r)
            if lab is not None:
                c["labels"] = lab
            cases.append(c)
        jobs = [(c, presentations(len(c["stmts"]), rng, 6 if len(c["stmts"]) <= 3 else 4)) for c in cases]
        with multiprocessing.Pool(NCPU) as pool:
            for c, (ts, err) in zip(cases, pool.starmap(lower_case, jobs, chunksize=200)):
                c["trees"], c["err"] = ts, err
        del jobs
        # another hash seed: set iteration order depends on the seed, not on the list order
        for sd in seeds:
            for c, t in zip(cases, other_seed_trees(cases, sd)):
                if t is not None:
                    c["trees"].append(t)
        n_bad += len(judge(chk, cases))
        n_trees += sum(len(c["trees"]) for c in cases)
        nontrivial += sum(1 for c in cases if len(c["stmts"]) >= 2 and any(s["deps"] for s in c["stmts"]))
        samples += sample([{"stmts": c["stmts"], "tree": trees.show(c["trees"][0])} for c in cases if len(c["stmts"]) >= 3], 2)
        tlc.cleanup()
    chk.stage("lower_and_judge")
    cases = builder_cases(chk, rng)
    n_builder = len(cases)
    chk.stage("builder_cases")
    n_bad += len(judge(chk, cases))
    chk.stage("tlc_judge")
    n_trees += sum(len(c["trees"]) for c in cases)
    nontrivial += sum(1 for c in cases if len(c["stmts"]) >= 2 and any(s["deps"] for s in c["stmts"]))
    chk.coverage.update({
        "evaluations": n_trees,
        "distinct_nontrivial": nontrivial,
        "rule": "phases = all PhaseGen behaviours with <= %d statements (every dependency set over earlier "
                "statements, 4 guards, 3 loop nests, no-ops) + %d-statement phases over a reduced catalogue under two "
                "relabellings (%d of %d) + phases built by the real CodeBuilder for "
                "ProgGen programs; each lowered in permuted list order, as frozenset and under other hash "
                "seeds; non-trivial = >= 2 statements and at least one edge" % (maxn, maxn + 1, min(n_big, 200000), n_big),
        "exhaustive": True,
        "exhaustive_scope": "all PhaseGen phases up to %d statements x all guard valuations" % maxn,
        "phases_generated": n_gen, "phases_from_builder": n_builder,
        "hash_seeds": [0] + seeds,
        "cases_with_violation": n_bad,
        "traces_validated_against_impl": n_trees,
        "samples": samples[:4],
    })
    chk.assumptions += ["guard flags keep their value during the pass through the tree; loop bounds are "
                        "compared as expressions; every loop is run for two symbolic iterations (trip counts are "
                        "executed by C01/C03)"]


def replay(chk, rep):
    c = rep["case"]
    rng = random.Random(0)
    if c["src"] == "builder":
        cb, _ = progs.replay_calls("main", c["calls"])
        real = list(cb.statements)
        index = {s.id: k + 1 for k, s in enumerate(real)}
        c["trees"], c["err"] = lower_case(c, presentations(len(real), rng, 6), real, lambda st: index[st.id])
    else:
        c["trees"], c["err"] = lower_case(c, presentations(len(c["stmts"]), rng, 6))
    print(json.dumps(c["stmts"]))
    print(trees.show(c["trees"][0]))
    path = tlc.write_cases([c])
    res = tlc.run_tlc("Lower", cfg="LowerStrict", env={"CASES": path}, workers=1)
    chk.add_tlc(res)
    if res.violated:
        print("TLC: %s violated" % res.violated)
        for h, b in res.error_trace():
            print("  ", h, b.replace("\n", " "))
        chk.violation(rep["signature"], "replayed case still violates %s" % res.violated, rep["case"])
    else:
        print("TLC: no violation on this case")
    chk.coverage.update({"evaluations": 1, "distinct_nontrivial": 1, "samples": [c["stmts"]]})
