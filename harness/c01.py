"""C01 -- interpreter and generated Python stepper both implement the written program.

Builder programs are behaviours of specs/ProgGen.tla over a typed alphabet; each is assembled into
a method, run through the real interpreter and the real generated class, and both recorded event
traces are validated by TLC against the reference semantics of specs/Stepper.tla (which executes
the builder calls in written order and never looks at dependency edges)."""

import multiprocessing
import random

from . import gen, progs, stepper, tlc
from .common import NCPU, sample
from .gen import CMP, C, S, V, acall, assign, if_, yield_

LEVEL = "model_checking"

Y = V("<state>y")
W = "<state>w"


def P(*xs):
    return ["prod", list(xs)]


def SUB(a, i):
    return ["sub", V(a), [i]]


def CALL(f, args, kw=None):
    return ["call", V(f), list(args), kw or []]


def alphabet_small():
    return [
        assign("a", S(Y, C(1))),
        assign("<state>y", S(Y, V("a"))),
        assign("<p>q", P(V("a"), C(2))),
        assign("arr", CALL("<builtin>array", [C(3)])),
        assign("arr", S(V("i"), Y), sub=[V("i")], loops=[["i", C(0), C(3)]]),
        assign("a", SUB("arr", C(1))),
        assign("n", C(2)),
        assign(W, V("a"), sub=[V("n")]),
        assign("a", P(["pow", C(-1), C(2)], Y)),
        assign("a", ["if", CMP("<", Y, C(2)), Y, P(C(-1), Y)]),
        yield_(Y),
        yield_(V("a"), comp="a", time=S(V("<t>"), V("<dt>"))),
        {"op": "fail"},
        {"op": "switch", "to": "p1"},
        if_(CMP("<", Y, C(2))),
        assign("<t>", S(V("<t>"), V("<dt>"))),
        assign("a", V("i"), loops=[["i", C(0), C(0)]]),               # zero-trip loop
        assign("<state>step", S(V("<state>step"), Y)),                # a state component whose name starts like the tag
        yield_(V("<state>step"), comp="step"),
    ]


def alphabet_big():
    return alphabet_small() + [
        assign("b", S(P(V("a"), C(2)), P(C(-1), Y))),
        assign("arr", P(SUB("arr", V("i")), C(2)), sub=[V("i")], loops=[["i", C(0), V("n")]]),
        assign("a", CALL("<func>f", [Y], [["k", C(2)]])),
        assign("b", CALL("<func>g", [V("a"), Y])),
        acall(["a", "b"], "<func>g2", [Y]),
        assign("a", ["pow", Y, C(2)]),
        assign("a", ["min", [Y, C(1)]]),
        assign("b", ["max", [V("a"), Y, C(0)]]),
        assign("a", CALL("<builtin>len", [V(W)])),
        assign("a", CALL("<builtin>dot_product", [V(W), V(W)])),
        assign("a", CALL("<builtin>dot_product", [], [["x", V(W)], ["y", V(W)]])),
        assign("a", CALL("<builtin>norm_inf", [V(W)])),
        yield_(V(W), comp="w"),
        {"op": "raise", "kind": "VerifError", "msg": "m"},
        {"op": "restart"},
        if_(CMP(">", V("a"), V("b"))),
        if_(["and", [CMP("==", Y, C(1)), CMP("!=", V("<dt>"), C(2))]]),
        if_(["not", CMP(">=", Y, C(3))]),
        assign("<state>y", S(Y, C(1))),
        assign(W, S(V("i"), V("j")), sub=[V("j")], loops=[["i", C(0), C(2)], ["j", V("i"), C(3)]]),
        assign("a", S(SUB(W, C(0)), P(C(-1), SUB(W, C(2))))),
        assign("<p>q", S(V("<p>q"), C(1))),
        assign("a", P(C(-2), S(Y, C(-3)))),
        {"op": "fresh", "as": "$f0", "prefix": "fv"},
        assign("$f0", S(Y, C(5))),
        yield_(V("$f0"), comp="f"),
        assign("b", V("i"), loops=[["i", V("n"), C(4)]]),
        assign("a", ["pow", ["pow", Y, C(2)], C(3)]),                   # a power as the base of a power
        assign("fl", CMP("<", Y, C(2))),                               # a logical temporary used as a guard by itself
        if_(V("fl")),
        if_(["not", V("fl")]),
        assign("fl", CMP(">", Y, C(7))),
    ]


def guard_family():
    """Conditionals whose body overwrites what the condition reads (the guard is a snapshot taken at the if_ call),
    for every condition form, with and without an else branch."""
    forms = [
        (CMP("<", Y, C(2)), [], assign("<state>y", S(Y, C(5)))),
        (V("fl"), [assign("fl", CMP("<", Y, C(2)))], assign("fl", CMP(">", Y, C(7)))),
        (["not", V("fl")], [assign("fl", CMP(">=", Y, C(2)))], assign("fl", CMP("<", Y, C(9)))),
        (["and", [V("fl"), CMP("<", V("<dt>"), C(3))]], [assign("fl", CMP("<", Y, C(2)))], assign("fl", CMP(">", Y, C(7)))),
        (["or", [V("fl"), CMP(">", V("<dt>"), C(1))]], [assign("fl", CMP("<", Y, C(2)))], assign("<dt>", C(1))),
    ]
    tails = [[yield_(Y, comp="in")], [assign("<state>y", S(Y, C(10))), yield_(Y, comp="in")],
             [if_(CMP("<", Y, C(100))), yield_(Y, comp="nested"), {"op": "endif"}]]
    out = []
    for cond, setup, overwrite in forms:
        for tail in tails:
            for with_else in (False, True):
                prog = setup + [if_(cond), overwrite] + tail + [{"op": "endif"}]
                if with_else:
                    prog += [{"op": "else"}, assign("<state>y", S(Y, C(1))), yield_(Y, comp="else"), {"op": "endelse"}]
                out.append(prog + [yield_(Y, comp="after")])
    out.append([assign("a", ["pow", ["pow", Y, C(2)], C(3)]), yield_(V("a"), comp="a"),
                assign("b", ["pow", C(2), ["pow", Y, C(2)]]), yield_(V("b"), comp="b")])
    # the textual forms of the builder API: if_("lhs", "<", "rhs") and if_("lhs < rhs")
    for form in ("str3", "str1"):
        for cond in (CMP("<", Y, C(2)), CMP(">=", S(Y, V("<dt>")), V("<dt>")), CMP("==", Y, S(V("<dt>"), C(1)))):
            out.append([dict(if_(cond), form=form), assign("<state>y", S(Y, C(5))), yield_(Y, comp="in"), {"op": "endif"},
                        {"op": "else"}, yield_(Y, comp="else"), {"op": "endelse"}, yield_(Y, comp="after")])
    # nested conditionals followed by an else branch: else_ negates the flag of the if_ block closed last (the outer one)
    conds = [CMP("<", Y, C(2)), CMP(">=", Y, C(2)), CMP("<", Y, C(100))]
    E = {"op": "endif"}
    for outer in conds:
        for inner in conds:
            for inner_else in (False, True):
                prog = [if_(outer), if_(inner), yield_(Y, comp="inner"), E]
                if inner_else:
                    prog += [{"op": "else"}, yield_(Y, comp="innerelse"), {"op": "endelse"}]
                prog += [assign("<state>y", S(Y, C(10))), E, {"op": "else"}, assign("<state>y", S(Y, C(1))),
                         yield_(Y, comp="else"), {"op": "endelse"}, yield_(Y, comp="after")]
                out.append(prog)
    return out


INPUTS = {"<t>", "<dt>", "<state>y", W, "<state>step"}


def grammar_programs(chk):
    """Every well-formed statement shape of specs/StmtGen.tla (kind x rhs form x assignee form x loop nest x guard x
    keyword form x time form), instantiated as in harness/c08.py, between a prelude that defines what it reads and
    yields that make its effect visible."""
    from . import c08
    res = tlc.run_tlc("StmtGen", workers=1, timeout=600)
    chk.add_tlc(res)
    pre = [assign("a", C(1)), assign("b", C(4)), assign("n", C(1)), assign("m", C(2)), assign("<p>q", C(1)),
           assign("arr", CALL("<builtin>array", [C(5)])), assign("arr", S(V("i"), C(1)), sub=[V("i")], loops=[["i", C(0), C(5)]]),
           assign("<p>v", CALL("<builtin>array", [C(5)])), assign("<p>v", P(V("i"), C(2)), sub=[V("i")], loops=[["i", C(0), C(5)]])]
    post = [yield_(V("a"), comp="a"), yield_(SUB("arr", C(1)), comp="arr1"), yield_(SUB("arr", C(3)), comp="arr3"),
            yield_(S(V("b"), SUB("<p>v", C(1))), comp="bv")]
    out = []
    for sh in res.json_lines("GEN"):
        if sh["kind"] in ("fail", "switch", "raise", "restart") and sh["guard"] == "none":
            continue
        out.append(pre + c08.shape_calls(sh) + post)
    if len(out) < 1000:
        raise tlc.MachineryError("StmtGen produced %d programs" % len(out))
    return out

P1_CALLS = [assign("<state>y", S(Y, C(-1))), yield_(Y, comp="y", tid="p1")]


def make_method(calls, two_phase=True, p1=None, next0="p0"):
    phases = [{"name": "p0", "next": next0, "calls": calls}]
    phases.append({"name": "p1", "next": "p0", "calls": p1 if p1 is not None else P1_CALLS})
    return {"phases": phases, "initial": "p0"}


def inputs(rng, n):
    base = []
    for y in (0, 1, 3):
        for dt in (1, 2):
            base.append([["<t>", ["i", 0]], ["<dt>", ["i", dt]], ["<state>y", ["i", y]],
                         [W, ["a", [1, 2, 3]]], ["<state>step", ["i", 4]]])
    bounds = [{"max_steps": 1, "t_end": -1}, {"max_steps": 2, "t_end": -1}, {"max_steps": 3, "t_end": -1},
              {"max_steps": -1, "t_end": 2}, {"max_steps": 4, "t_end": 5}]
    combos = [(i, b) for i in base for b in bounds]
    return rng.sample(combos, n)


CAP = 24


def run_case(args):
    """Run both back ends on one (method, input, bound); returns the TLC case."""
    from .common import use_repo
    use_repo()
    method, inp, bound = args
    try:
        m = stepper.resolve_fresh(method)
    except Exception as e:
        return {"builder_error": "%s: %s" % (type(e).__name__, e), "method": method}
    pn = stepper.persistent_names(dict(m, input=inp))
    traces = []
    for be in ("interp", "pycodegen"):
        try:
            ev = stepper.record(m, be, inp, bound, CAP)
        except Exception as e:     # failure outside run(): construction, code generation
            ev = [["setup-exc", type(e).__name__, str(e)[:100]]]
        traces.append({"impl": be, "events": ev})
    return {"method": stepper.tlc_method(m, pn), "input": inp, "bound": bound, "cap": CAP,
            "fault": [0, 0], "mode": "events", "traces": traces, "src": method}


def classify(case, impl, pos, exp, got):
    """Structural predicate for signatures: what kind of construct does the program contain that
    explains the difference (diagnosis only)."""
    tr = [t for t in case["traces"] if t["impl"] == impl][0]["events"]
    ev = tr[pos - 1] if pos - 1 < len(tr) else ["<none>"]
    detail = ""
    if ev[0] in ("exc", "setup-exc"):
        detail = ev[1]
    feats = []
    text = progs.show_prog([c for ph in case["src"]["phases"] for c in ph["calls"]])
    calls = [c for ph in case["src"]["phases"] for c in ph["calls"]]
    if any(c["op"] == "assign" and c.get("loops") for c in calls):
        feats.append("loop")
    if "dot_product" in text and "x=" in text:
        feats.append("keyword-call-of-dot_product")
    if "**" in text and "-1" in text:
        feats.append("power-of-negative-constant")
    return detail, feats


def judge(chk, cases):
    out = tlc.judge_batch("Stepper", cases_for_tlc(cases), chunk=400, tags=("BAD", "END"), chk=chk, jobs=12)
    bad = {t[1]: t[2:] for t in out["BAD"]}
    ended = {t[1]: t[2:] for t in out["END"]}
    missing = [k for k in range(len(cases)) if k not in bad and k not in ended]
    if missing:
        raise tlc.MachineryError("Stepper batch: %d cases neither accepted, dropped nor rejected (first: %r)"
                                 % (len(missing), cases[missing[0]]["src"]))
    return bad, ended


def cases_for_tlc(cases):
    return [{k: c[k] for k in ("method", "input", "bound", "cap", "fault", "mode", "traces")} for c in cases]


def run(chk):
    rng = random.Random(chk.seed)
    small, big = alphabet_small(), alphabet_big()
    depth = 3 if chk.quick else 4
    progs_exh, _ = gen.tlc_programs(small, depth, chk=chk, minlen=1, typed=INPUTS)
    deeper, _ = gen.tlc_programs(small, depth + 1, chk=chk, minlen=depth + 1, typed=INPUTS)
    deeper = [p for p in deeper if len(p) == depth + 1]
    progs_exh = progs_exh + rng.sample(deeper, min(len(deeper), 5000 if chk.quick else 40000))
    sim, _ = gen.tlc_programs(big, 9, simulate=500 if chk.quick else 8000, seed=chk.seed, chk=chk, minlen=4,
                              typed=INPUTS)
    sim = [p for p in sim if len(p) >= 4]
    rnd = [gen.random_program(rng, big, rng.randint(6, 12), typed=INPUTS) for _ in range(300 if chk.quick else 6000)]
    jobs = []
    for calls in progs_exh:
        for inp, bound in inputs(rng, 1 if chk.quick else 2):
            jobs.append((make_method(calls), inp, bound))
    for calls in sim + rnd:
        p1 = rng.choice(sim + rnd) if rng.random() < 0.3 else None
        nxt = rng.choice(["p0", "p0", "p1"])
        for inp, bound in inputs(rng, 2):
            jobs.append((make_method(calls, p1=p1, next0=nxt), inp, bound))
    gram = grammar_programs(chk)
    for calls in (rng.sample(gram, 800) if chk.quick else gram):
        for inp, bound in inputs(rng, 1):
            jobs.append((make_method(calls), inp, bound))
    for calls in guard_family():
        for inp, bound in inputs(rng, 4 if chk.quick else 30):
            jobs.append((make_method(calls), inp, bound))
    chk.stage("generate")
    with multiprocessing.Pool(NCPU) as pool:
        results = pool.map(run_case, jobs, chunksize=40)
    chk.stage("run_backends")
    cases = []
    for r in results:
        if "builder_error" in r:
            chk.violation("C01:builder-exception:%s" % r["builder_error"].split(":")[0],
                          "builder raised %s" % r["builder_error"], r["method"])
        else:
            cases.append(r)
    bad, ended = judge(chk, cases)
    chk.stage("tlc_judge")
    for k in sorted(bad):
        impl, pos, exp, got = bad[k]
        c = cases[k]
        tr0 = [t for t in c["traces"] if t["impl"] == impl][0]["events"]
        ev0 = tr0[pos - 1] if pos - 1 < len(tr0) else ["<none>"]
        if ev0[0] in ("exc", "setup-exc"):
            import re
            msg = re.sub(r"'[^']*'", "'_'", str(ev0[2]) if len(ev0) > 2 else "")
            sig = "C01:%s:%s(%s):%s" % (impl, ev0[0], ev0[1], msg[:60])
        else:
            sig = "C01:%s:event-mismatch:expected-%s-got-%s" % (impl, exp, got)
        text = " | ".join("%s: %s" % (ph["name"], progs.show_prog(ph["calls"])) for ph in c["src"]["phases"])
        tr = [t for t in c["traces"] if t["impl"] == impl][0]["events"]
        chk.violation(sig, "%s: event %d should be %s but is %s for [%s] input %s bound %s"
                      % (impl, pos, exp, tr[pos - 1] if pos - 1 < len(tr) else "<none>", text, c["input"], c["bound"]),
                      {"method": c["src"], "input": c["input"], "bound": c["bound"]})
    accepted = sum(1 for v in ended.values() if v[0] == "accepted")
    dropped = sum(1 for v in ended.values() if v[0] == "dropped")
    events = sum(len(t["events"]) for c in cases for t in c["traces"])
    chk.coverage.update({
        "evaluations": len(cases),
        "distinct_nontrivial": sum(1 for k, v in ended.items() if v[0] == "accepted" and v[2] >= 2),
        "rule": "methods = every ProgGen behaviour of depth <= %d over a %d-call typed alphabet as phase p0 "
                "(typed: temporaries are read only after being assigned; + a fixed second phase), TLC-simulated depth-9 behaviours and seeded 6-12 call programs over a "
                "%d-call alphabet with random second phases / successors; each run on both back ends for sampled "
                "initial states (y in {0,1,3}, dt in {1,2}) and run bounds (max_steps 1..4, t_end 2/5); "
                "non-trivial = accepted trace with at least 2 events"
                % (3 if chk.quick else 4, len(small), len(big)),
        "exhaustive": True,
        "exhaustive_scope": "all call sequences up to the depth bound over the small alphabet (inputs sampled); the next depth is sampled",
        "programs_exhaustive": len(progs_exh), "programs_simulated": len(sim), "programs_sampled": len(rnd),
        "traces_validated_against_impl": 2 * len(cases),
        "cases_accepted": accepted, "cases_out_of_fragment": dropped, "cases_rejected": len(bad),
        "events_compared": events,
        "samples": sample([{"p0": progs.show_prog(c["src"]["phases"][0]["calls"]), "input": c["input"],
                            "bound": c["bound"], "interp_events": c["traces"][0]["events"][:4]}
                           for c in cases if len(c["traces"][0]["events"]) >= 3], 3),
    })
    chk.assumptions += ["integer-valued programs without aliasing of arrays; user functions from a fixed table "
                        "(harness/stepper.py FUNCS = Apply in Expr.tla); programs that read undefined variables, "
                        "index out of range or exceed the magnitude bound are dropped from judgement from that "
                        "step on (cases_out_of_fragment)",
                        "AssignImplicit excluded (no back end executes it)"]


def replay(chk, rep):
    c = rep["case"]
    r = run_case((c["method"], c["input"], c["bound"]))
    for t in r["traces"]:
        print(t["impl"])
        for e in t["events"]:
            print("   ", e)
    path = tlc.write_cases(cases_for_tlc([r]))
    res = tlc.run_tlc("Stepper", cfg="StepperStrict", env={"CASES": path}, workers=1)
    chk.add_tlc(res)
    if res.violated:
        tr = res.error_trace()
        print("TLC: rejected;", tr[-1][1] if tr else "")
        chk.violation(rep["signature"], "replayed case still rejected", c)
    else:
        print("TLC: traces accepted")
    chk.coverage.update({"evaluations": 1, "distinct_nontrivial": 1, "samples": [c["method"]]})
