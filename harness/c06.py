"""C06 -- control-flow simplification never changes which statements run, or their order.

Trees are behaviours of specs/TreeGen.tla (all trees up to a token bound, then simulated deeper
ones); the real simplify_ast is run on each; specs/Simplify.tla judges input/output pairs under
every valuation of the condition flags."""

from . import tlc, trees
from .common import sample

LEVEL = "model_checking"


DEEP_CONDS = [["v", "c"], ["not", ["v", "c"]], ["v", "d"]]


def gen_trees(chk, max_tokens, simulate=None, depth=None, maxdepth=3, conds=trees.CONDS):
    name = tlc.temp_cfg("CONSTANTS\n MaxTokens = %d\n MaxKids = 3\n NConds = %d\n MaxDepth = %d\n"
                        "INIT Init\nNEXT Next\nCHECK_DEADLOCK FALSE\nINVARIANT Dump\n"
                        % (max_tokens, len(conds), maxdepth))
    if simulate:
        res = tlc.run_tlc("TreeGen", cfg=name, workers=1, simulate="num=%d" % simulate,
                          depth=depth, seed=chk.seed)
    else:
        res = tlc.run_tlc("TreeGen", cfg=name)
    chk.add_tlc(res)
    seen = set()
    out = []
    for toks in res.json_lines("GEN"):
        key = repr(toks)
        if key in seen:
            continue
        seen.add(key)
        out.append(trees.parse_tokens(toks, conds))
    return out


def has_inner_block_after_first(tree):
    tag = tree[0]
    if tag == "B":
        for k, t in enumerate(tree[1]):
            if k > 0 and t[0] == "B" and len(t[1]) >= 2:
                return True
        return any(has_inner_block_after_first(t) for t in tree[1])
    if tag == "I":
        return has_inner_block_after_first(tree[2])
    if tag == "E":
        return has_inner_block_after_first(tree[2]) or has_inner_block_after_first(tree[3])
    if tag == "F":
        return has_inner_block_after_first(tree[4])
    return False


def apply_real(tree, wrap):
    from dagrt.codegen.dag_ast import simplify_ast
    try:
        out = simplify_ast(trees.build(tree, wrap))
        return {"in": tree, "out": trees.export(out), "err": ""}
    except Exception as e:          # any exception is an observation for TLC, not a harness failure
        return {"in": tree, "out": ["N"], "err": type(e).__name__}


def judge(chk, cases):
    bad = {}
    for t in tlc.judge_batch("Simplify", cases, chunk=5000, chk=chk)["BAD"]:
        bad.setdefault(t[1], set()).add(t[2])
    for k in sorted(bad):
        c = cases[k]
        for clause in sorted(bad[k]):
            if clause == "NoError":
                sig = "C06:NoError:%s" % c["err"]
                what = "simplify_ast raised %s on %s" % (c["err"], trees.show(c["in"]))
            else:
                pred = "inner-block-after-first-child" if has_inner_block_after_first(c["in"]) else "other"
                sig = "C06:SameLeaves:%s" % pred
                what = "simplify_ast(%s) = %s executes different leaves" % (trees.show(c["in"]), trees.show(c["out"]))
            chk.violation(sig, what, {"tree": c["in"], "wrap": c.get("wrap", True)})
    return bad


def run(chk):
    max_tokens = 6 if chk.quick else 8
    ts = gen_trees(chk, max_tokens)
    # the same token bound without the nesting bound, over the pool {c, not c, d} (deep chains of conditionals on one flag)
    known = {repr(t) for t in ts}
    deep = [t for t in gen_trees(chk, max_tokens if chk.quick else 7, maxdepth=8, conds=DEEP_CONDS) if repr(t) not in known]
    ts += deep
    n_exh = len(ts)
    sim = gen_trees(chk, 14, simulate=400 if chk.quick else 20000, depth=15, maxdepth=5)
    known = {repr(t) for t in ts}
    sim = [t for t in sim if repr(t) not in known]
    ts += sim
    # runs: blocks of 4-6 conditionals over {c, not c, d} with leaf bodies (several separate runs of same-condition
    # conditionals in one block, with and without else parts)
    import itertools
    C_, NC, D_ = ["v", "c"], ["not", ["v", "c"]], ["v", "d"]
    kinds = [lambda a, b: ["L", a], lambda a, b: ["I", C_, ["L", a]], lambda a, b: ["I", NC, ["L", a]], lambda a, b: ["I", D_, ["L", a]],
             lambda a, b: ["E", C_, ["L", a], ["L", b]], lambda a, b: ["E", D_, ["L", a], ["L", b]]]
    rng_ = __import__("random").Random(chk.seed)
    for n in (4, 5, 6):
        combos = list(itertools.product(range(len(kinds)), repeat=n))
        if n >= 5:
            combos = rng_.sample(combos, (1500 if n == 5 else 800) if chk.quick else min(len(combos), 20000))
        for combo in combos:
            ts.append(["B", [kinds[k](2 * i + 1, 2 * i + 2) for i, k in enumerate(combo)]])
    cases = []
    for k, t in enumerate(ts):
        c = apply_real(t, wrap=True)
        cases.append(c)
        if k % 7 == 0:               # bare-constant leaves, as in the repository's tests
            c2 = apply_real(t, wrap=False)
            c2["wrap"] = False
            if c2["out"] != c["out"] or c2["err"] != c["err"]:
                cases.append(c2)
    bad = judge(chk, cases)
    changed = sum(1 for c in cases if c["err"] == "" and c["out"] != c["in"])
    nontrivial = sum(1 for c in cases if trees.count_leaves(c["in"]) >= 2)
    chk.coverage.update({
        "evaluations": len(cases),
        "distinct_nontrivial": nontrivial,
        "rule": "trees = all TreeGen behaviours with <= %d preorder tokens (Block<=3 children, nesting<=3, 6 conditions; "
                "plus all with unbounded nesting over the conditions {c, not c, d}, <= 6/7 tokens; "
                "conditions c, d, ~c, ~~c, True, False) + simulated trees up to 14 tokens; each judged "
                "under all valuations of its flags; non-trivial = at least two leaves; distinct by "
                "construction (TLC state = token sequence)" % max_tokens,
        "exhaustive": True,
        "exhaustive_scope": "all trees with <= %d tokens x all flag valuations" % max_tokens,
        "trees_exhaustive": n_exh, "trees_simulated": len(sim),
        "outputs_differing_from_input": changed,
        "cases_with_violation": len(bad),
        "traces_validated_against_impl": len(cases),
        "samples": sample([{"in": trees.show(c["in"]), "out": trees.show(c["out"]) if not c["err"] else c["err"]}
                           for c in cases if c["out"] != c["in"]], 6),
    })
    chk.assumptions += ["conditions are flags, negations and constants as the property states; "
                        "flags are not reassigned inside the tree (single-definition rule, C10)"]


def replay(chk, rep):
    c = apply_real(rep["case"]["tree"], rep["case"].get("wrap", True))
    print("in :", trees.show(c["in"]))
    print("out:", trees.show(c["out"]) if not c["err"] else "raised " + c["err"])
    path = tlc.write_cases([c])
    res = tlc.run_tlc("Simplify", cfg="SimplifyStrict", env={"CASES": path}, workers=1)
    chk.add_tlc(res)
    if res.violated:
        print("TLC: %s violated" % res.violated)
        for h, b in res.error_trace():
            print("  ", h, b.replace("\n", " "))
        chk.violation(rep["signature"], "replayed case still violates %s" % res.violated, rep["case"])
    else:
        print("TLC: no violation on this case")
    chk.coverage.update({"evaluations": 1, "distinct_nontrivial": 1, "samples": [trees.show(c["in"])]})
