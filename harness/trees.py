"""Structured programs (dag_ast) in the interchange format: building real AST objects from
TreeGen behaviours and exporting real AST objects back."""

from . import exprs

CONDS = [["v", "c"], ["v", "d"], ["not", ["v", "c"]], ["not", ["not", ["v", "c"]]],
         ["cb", True], ["cb", False]]


def parse_tokens(toks, CONDS=CONDS):
    """Preorder token list from TreeGen -> tree JSON (leaves numbered in creation order)."""
    pos = [0]
    leaf = [0]

    def node():
        t = toks[pos[0]]
        pos[0] += 1
        tag = t[0]
        if tag == "L":
            leaf[0] += 1
            return ["L", leaf[0]]
        if tag == "N":
            return ["N"]
        if tag == "I":
            return ["I", CONDS[t[1] - 1], node()]
        if tag == "E":
            c = CONDS[t[1] - 1]
            a = node()
            b = node()
            return ["E", c, a, b]
        if tag == "B":
            return ["B", [node() for _ in range(t[1])]]
        raise ValueError(t)

    tree = node()
    assert pos[0] == len(toks)
    return tree


class Leaf:
    """Opaque statement object placed in a StatementWrapper."""

    def __init__(self, ident):
        self.id = ident

    def __repr__(self):
        return "Leaf(%r)" % (self.id,)

    def __eq__(self, other):
        return isinstance(other, Leaf) and other.id == self.id

    def __hash__(self):
        return hash(("Leaf", self.id))


def cond_obj(c):
    if c[0] == "cb":
        return bool(c[1])
    return exprs.from_json(c)


def build(tree, wrap=True):
    """tree JSON -> real dag_ast objects.  wrap=False uses bare constants as leaves (as the
    repository's own tests do)."""
    from dagrt.codegen.dag_ast import (Block, ForLoop, IfThen, IfThenElse, NullASTNode,
                                       StatementWrapper)
    tag = tree[0]
    if tag == "L":
        return StatementWrapper(Leaf(tree[1])) if wrap else tree[1]
    if tag == "N":
        return NullASTNode()
    if tag == "B":
        return Block(*[build(t, wrap) for t in tree[1]])
    if tag == "I":
        return IfThen(cond_obj(tree[1]), build(tree[2], wrap))
    if tag == "E":
        return IfThenElse(cond_obj(tree[1]), build(tree[2], wrap), build(tree[3], wrap))
    if tag == "F":
        return ForLoop(tree[1], exprs.from_json(tree[2]), exprs.from_json(tree[3]), build(tree[4], wrap))
    raise ValueError(tree)


def export(node, leaf_id=None):
    """real dag_ast object -> tree JSON.  leaf_id maps a wrapped statement to its identifier."""
    from dagrt.codegen.dag_ast import (Block, ForLoop, IfThen, IfThenElse, NullASTNode,
                                       StatementWrapper)
    if isinstance(node, StatementWrapper):
        st = node.statement
        return ["L", leaf_id(st) if leaf_id else st.id]
    if isinstance(node, NullASTNode):
        return ["N"]
    if isinstance(node, Block):
        return ["B", [export(c, leaf_id) for c in node.children]]
    if isinstance(node, IfThenElse):
        return ["E", exprs.to_json(node.condition), export(node.then, leaf_id), export(node.else_, leaf_id)]
    if isinstance(node, IfThen):
        return ["I", exprs.to_json(node.condition), export(node.then, leaf_id)]
    if isinstance(node, ForLoop):
        return ["F", node.loop_var_name, exprs.to_json(node.lbound), exprs.to_json(node.ubound),
                export(node.body, leaf_id)]
    if isinstance(node, int) and not isinstance(node, bool):
        return ["L", node]
    raise ValueError("unexpected AST node %r" % (node,))


def show(tree):
    tag = tree[0]
    if tag == "L":
        return str(tree[1])
    if tag == "N":
        return "Null"
    if tag == "B":
        return "Block(" + ", ".join(show(t) for t in tree[1]) + ")"
    if tag == "I":
        return "If(%s, %s)" % (exprs.show(tree[1]), show(tree[2]))
    if tag == "E":
        return "IfElse(%s, %s, %s)" % (exprs.show(tree[1]), show(tree[2]), show(tree[3]))
    if tag == "F":
        return "For(%s in %s..%s, %s)" % (tree[1], exprs.show(tree[2]), exprs.show(tree[3]), show(tree[4]))
    return repr(tree)


def shape(tree):
    """Structural skeleton without leaf numbers and condition details (for signatures)."""
    tag = tree[0]
    if tag in ("L", "N"):
        return tag
    if tag == "B":
        return "B(" + ",".join(shape(t) for t in tree[1]) + ")"
    if tag == "I":
        return "I(" + shape(tree[2]) + ")"
    if tag == "E":
        return "E(" + shape(tree[2]) + "," + shape(tree[3]) + ")"
    if tag == "F":
        return "F(" + shape(tree[4]) + ")"


def count_leaves(tree):
    tag = tree[0]
    if tag == "L":
        return 1
    if tag == "N":
        return 0
    if tag == "B":
        return sum(count_leaves(t) for t in tree[1])
    if tag == "I":
        return count_leaves(tree[2])
    if tag == "E":
        return count_leaves(tree[2]) + count_leaves(tree[3])
    if tag == "F":
        return count_leaves(tree[4])
