"""C20 -- line wrapping of generated code changes layout only.

Code lines are assembled from fragment sequences enumerated by TLC (specs/WrapGen.tla), wrapped
by the real wrap_line of both targets at several widths and indentation levels, and judged at
character level by specs/Wrap.tla."""

import ast
import random

from . import tlc
from .common import sample

LEVEL = "model_checking"

FRAGS = ["a", "bb + 1", '"s t"', '"u  v"', 'f("a b", 2)', "'it\"s ok'", "long_identifier_" + "x" * 24,
         'g(x,"c d")', "-1", "x[0]", '"x" "y z"', "h('p  q' ,1)", "'so quickly!'", '"a # b"', "trim(d) // '\\' // trim(f)"]
FORTRAN_ONLY = {len(FRAGS)}            # a backslash is an ordinary character in a Fortran literal ('\' is a complete string)
TEMPLATES = [("r = [%s]", ", "), ("r = %s", " + "), ("call(%s)", ", ")]


def make_line(idxs, tmpl):
    t, sep = TEMPLATES[tmpl]
    return t % sep.join(FRAGS[i - 1] for i in idxs)


def wrap_real(target, line, level, width):
    if target == "python":
        from dagrt.codegen.python import wrap_line
    else:
        from dagrt.codegen.fortran import wrap_line
    try:
        return wrap_line(line, level=level, width=width), ""
    except Exception as e:
        return [line], type(e).__name__


def emit_real(target, line, level):
    """The generators' own per-line use of the wrapper: FortranCodeGenerator.get_code() on an emitted line, the Python
    generator's _emit() inside a phase function.  Returns (wrapped lines without the base indentation, width, indent,
    effective level, error)."""
    try:
        if target == "fortran":
            from . import fprofile
            g = fprofile.fortran_generator("m")
            n0 = len(g.get_code().split("\n"))
            g.module_emitter.code.append(" " * level + line)
            out = g.get_code().split("\n")[n0:]
            return [o[level:] if o.startswith(" " * level) else o for o in out], 80, 1, level, ""
        from dagrt.codegen.python import CodeGenerator
        g = CodeGenerator("S")
        g.emit_def_begin("p")
        for _ in range(level):
            g._emitter.indent()
        n0 = len(g._emitter.code)
        g._emit(line)
        lv = g._class_emitter.level + g._emitter.level
        out = [o[4 * g._emitter.level:] if o.startswith(" " * 4 * g._emitter.level) else o for o in g._emitter.code[n0:]]
        return out, 80, 4, lv, ""
    except Exception as e:
        # the emission entry points used here are private to the generators: if they are not there (renamed, refactored)
        # the emission-level cases are skipped, not judged
        return [line], 80, 4, level, "emit-api:" + type(e).__name__


def ast_verdict(line, out):
    try:
        ref = ast.dump(ast.parse(line))
    except SyntaxError:
        return "n/a"
    try:
        got = ast.dump(ast.parse("\n".join(out)))
    except SyntaxError:
        return "syntax-error"
    return "same" if got == ref else "different"


def predicate(case):
    """Which kind of input explains a violation (for the signature)."""
    import shlex
    toks = shlex.split(case["text"], posix=False)
    inside = False
    for t in toks:
        for q in "\"'":
            if t.count(q) % 2 == 1:
                inside = True
    return "quote-opening-mid-word-with-blank-inside" if inside else "other"


def run(chk):
    rng = random.Random(chk.seed)
    maxf = 3 if chk.quick else 4
    cfg = tlc.temp_cfg("CONSTANTS\n NFrags = %d\n MaxFrags = %d\nINIT Init\nNEXT Next\n"
                       "CHECK_DEADLOCK FALSE\nINVARIANT Dump\n" % (len(FRAGS), maxf))
    res = tlc.run_tlc("WrapGen", cfg=cfg, workers=4)
    chk.add_tlc(res)
    seqs = res.json_lines("GEN")
    widths = [16, 40] if chk.quick else [10, 16, 24, 40, 80]
    levels = [0, 2] if chk.quick else [0, 1, 2]
    cases = []
    for idxs in seqs:
        for tmpl in range(len(TEMPLATES)):
            line = make_line(idxs, tmpl)
            combos = [(w, lv) for w in widths for lv in levels]
            if len(idxs) == maxf and len(combos) > 2:
                combos = rng.sample(combos, 2)
            for w, lv in combos:
                for target in ("python", "fortran"):
                    if target == "python" and FORTRAN_ONLY & set(idxs):
                        continue
                    out, err = wrap_real(target, line, lv, w)
                    cases.append({"target": target, "line": list(line), "text": line, "level": lv, "indent": 4,
                                  "width": w, "out": [list(o) for o in out], "outtext": out, "err": err,
                                  "ast": ast_verdict(line, out) if target == "python" else "n/a"})
    # emission level: the same lines through the generators' own per-line wrapping (long lines only)
    for idxs in seqs:
        if len(idxs) < 2:
            continue
        for tmpl in range(len(TEMPLATES)):
            line = make_line(idxs, tmpl)
            if len(line) < 60 and rng.random() < 0.8:
                continue
            line = "result_variable_with_a_long_name_%d = %s" % (tmpl, line) if tmpl == 2 else line
            if tmpl == 0 and not FORTRAN_ONLY & set(idxs):
                # lines that are legal only in context, as the Python generator emits them: a yield, a block header
                body = TEMPLATES[0][1].join(FRAGS[i - 1] for i in idxs)
                for ctx in ("yield self.StateComputed(t=self.t + self.dt, time_id='final', component_id='y', state_component=[%s])" % body,
                            "if %s:" % " and ".join("(%s) != 0" % FRAGS[i - 1] for i in idxs if FRAGS[i - 1][0] not in "\"'")):
                    if len(ctx) < 70 or ctx == "if :":
                        continue
                    out, w, ind, lv, err = emit_real("python", ctx, rng.choice([0, 1]))
                    cases.append({"target": "python", "line": list(ctx), "text": ctx, "level": lv, "indent": ind, "width": w,
                                  "out": [list(o) for o in out], "outtext": out, "err": err, "emit": True, "ast": "n/a"})
            for target in ("python", "fortran"):
                if target == "python" and FORTRAN_ONLY & set(idxs):
                    continue
                lv0 = rng.choice([0, 1, 3])
                out, w, ind, lv, err = emit_real(target, line, lv0)
                cases.append({"target": target, "line": list(line), "text": line, "level": lv, "indent": ind,
                              "width": w, "out": [list(o) for o in out], "outtext": out, "err": err, "emit": True,
                              "ast": ast_verdict(line, out) if target == "python" else "n/a"})
    skipped = sum(1 for c in cases if c["err"].startswith("emit-api"))
    cases = [c for c in cases if not c["err"].startswith("emit-api")]
    chk.coverage["emission_cases_skipped_private_api_unavailable"] = skipped
    chk.stage("wrap")
    tl = [{k: c[k] for k in ("target", "line", "level", "indent", "width", "out", "ast")} for c in cases]
    out = tlc.judge_batch("Wrap", tl, chunk=4000, chk=chk)
    chk.stage("tlc_judge")
    bad = {}
    for t in out["BAD"]:
        bad.setdefault(t[1], set()).add(t[2])
    for k in sorted(bad):
        c = cases[k]
        pred = predicate(c)
        for clause in sorted(bad[k]):
            chk.violation("C20:%s:%s:%s%s" % (clause, c["target"], pred, ":emission" if c.get("emit") else ""),
                          "%s(%r, level=%d, width=%d) [%s] = %r violates %s"
                          % ("generator emission" if c.get("emit") else "wrap_line", c["text"], c["level"], c["width"], c["target"],
                             c["outtext"], clause),
                          {"target": c["target"], "text": c["text"], "level": c["level"], "width": c["width"], "emit": bool(c.get("emit"))})
    for k, c in enumerate(cases):
        if c["err"]:
            chk.violation("C20:NoError:%s:%s" % (c["target"], c["err"]), "wrap_line raised %s on %r" % (c["err"], c["text"]),
                          {"target": c["target"], "text": c["text"], "level": c["level"], "width": c["width"]})
    chk.coverage.update({
        "evaluations": len(cases),
        "distinct_nontrivial": sum(1 for c in cases if len(c["out"]) > 1),
        "rule": "lines = every sequence of <= %d fragments from a %d-fragment catalogue (identifiers, operators, "
                "quoted strings with single/double blanks, quotes opening mid-word, over-long tokens) in %d "
                "statement templates x widths %s x levels %s x both padding functions; non-trivial = the line "
                "was actually wrapped" % (maxf, len(FRAGS), len(TEMPLATES), widths, levels),
        "exhaustive": True,
        "exhaustive_scope": "all fragment sequences up to %d over the catalogue (width/level combinations sampled "
                            "at the longest length)" % maxf,
        "cases_with_violation": len(bad),
        "traces_validated_against_impl": len(cases),
        "samples": sample([{"line": c["text"], "width": c["width"], "level": c["level"], "out": c["outtext"]}
                           for c in cases if len(c["out"]) > 2], 4),
    })
    chk.assumptions += ["token = maximal run of non-blanks with quoted stretches atomic; no escaped quotes in "
                        "the catalogue; Python syntax-tree equality is observed with ast.parse and judged by TLC"]


def replay(chk, rep):
    c = rep["case"]
    ind = 4
    if c.get("emit"):
        base = c["level"] - (1 if c["target"] == "python" else 0)          # the Python class emitter adds one level
        out, _w, ind, _lv, err = emit_real(c["target"], c["text"], max(base - (1 if c["target"] == "python" else 0), 0))
    else:
        out, err = wrap_real(c["target"], c["text"], c["level"], c["width"])
    print("input :", repr(c["text"]))
    for o in out:
        print("output:", repr(o))
    case = {"target": c["target"], "line": list(c["text"]), "level": c["level"], "indent": ind, "width": c["width"],
            "out": [list(o) for o in out], "ast": ast_verdict(c["text"], out) if c["target"] == "python" else "n/a"}
    print("ast   :", case["ast"])
    path = tlc.write_cases([case])
    res = tlc.run_tlc("Wrap", cfg="WrapStrict", env={"CASES": path}, workers=1)
    chk.add_tlc(res)
    if res.violated or err:
        print("TLC: %s violated" % res.violated)
        chk.violation(rep["signature"], "replayed case still violates %s" % res.violated, c)
    else:
        print("TLC: no violation on this case")
    chk.coverage.update({"evaluations": 1, "distinct_nontrivial": 1, "samples": [c["text"]]})
