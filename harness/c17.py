"""C17 -- a reported expression match is a genuine match.

Templates are behaviours of specs/ExprGen.tla over template variables p, q; targets are instances of
the template (children shuffled, identities dropped) and unrelated expressions; the real
dagrt.expression.match is run with several free-variable sets and pre-matches;
specs/ExprContracts.tla (Match clauses) judges every returned substitution."""

import random

from . import exprgen, exprs, tlc
from .common import sample

LEVEL = "model_checking"

REPL = [["v", "x"], ["v", "y"], ["c", 1], ["c", 0], ["sum", [["v", "x"], ["v", "y"]]],
        ["call", ["v", "<func>f"], [["v", "x"]], []], ["prod", [["c", 2], ["v", "y"]]]]


def subst(j, sigma):
    t = j[0]
    if t == "v":
        return sigma.get(j[1], j)
    if t in ("c", "cb"):
        return j
    if t in ("sum", "prod", "min", "max", "and", "or"):
        return [t, [subst(c, sigma) for c in j[1]]]
    if t in ("pow", "quot"):
        return [t, subst(j[1], sigma), subst(j[2], sigma)]
    if t == "call":
        return ["call", j[1], [subst(c, sigma) for c in j[2]], [[k, subst(c, sigma)] for k, c in j[3]]]
    if t == "sub":
        return ["sub", j[1], [subst(c, sigma) for c in j[2]]]
    return j


def shuffle(j, rng):
    t = j[0]
    if t in ("sum", "prod"):
        k = [shuffle(c, rng) for c in j[1]]
        rng.shuffle(k)
        return [t, k]
    if t == "call":
        kw = [[k, shuffle(c, rng)] for k, c in j[3]]
        rng.shuffle(kw)                     # keyword arguments are identified by name, not by position
        return ["call", j[1], [shuffle(c, rng) for c in j[2]], kw]
    return j


def drop_identity(j, var):
    """template sum(p, E) / prod(p, E) instantiated with p := identity and simplified to E."""
    if j[0] in ("sum", "prod") and len(j[1]) == 2:
        a, b = j[1]
        if a == ["v", var]:
            return b
        if b == ["v", var]:
            return a
    return None


def _all_names(j, out):
    """Every name of an expression, function symbols included (own traversal)."""
    if isinstance(j, list):
        if len(j) == 2 and j[0] == "v" and isinstance(j[1], str):
            out.add(j[1])
        else:
            for x in j:
                _all_names(x, out)
    return out


def run_match(template, target, free, pre, note, bound=False):
    """bound=True: the other way of saying the same thing -- free_variable_names=None and every other name of the
    template (function symbols too) listed in bound_variable_names."""
    from dagrt.expression import match
    case = {"kind": "match", "template": template, "target": target, "free": list(free), "pre": pre, "sigma": [],
            "err": "", "note": note,
            "vars": sorted(set(exprgen.data_vars(template)) | set(exprgen.data_vars(target)))}
    try:
        kw = {}
        if pre:
            kw["pre_match"] = {n: exprs.from_json(x) for n, x in pre}
        if bound:
            res = match(exprs.from_json(template), exprs.from_json(target), None,
                        bound_variable_names=sorted(_all_names(template, set()) - set(free)), **kw)
        else:
            res = match(exprs.from_json(template), exprs.from_json(target), list(free), **kw)
        case["sigma"] = [[n, exprs.to_json(x)] for n, x in sorted(res.items())]
    except Exception as e:
        case["err"] = type(e).__name__
    return case


def run(chk):
    rng = random.Random(chk.seed)
    maxt = 4 if chk.quick else 5
    temps = [t for t in exprgen.generate(chk, maxt, full="template", roots=("a",))
             if {"p", "q"} & set(exprs.variables(t)) and t[0] != "v"]
    others = exprgen.generate(chk, 4, full="arith-small", roots=("a",))
    cases = []
    for t in temps:
        tv = sorted({"p", "q"} & set(exprs.variables(t)))
        for _ in range(2 if chk.quick else 4):
            sigma = {v: rng.choice(REPL) for v in tv}
            inst = subst(t, sigma)
            cases.append(run_match(t, inst, tv, [], "instance"))
            cases.append(run_match(t, shuffle(inst, rng), tv, [], "shuffled instance"))
            cases.append(run_match(t, shuffle(inst, rng), tv + ["x"], [], "x free as well"))
            # the same questions asked through bound_variable_names, on one template with different bound sets one
            # after the other (larger free set first)
            if "x" in exprs.variables(t):
                inst_x = subst(t, dict(sigma, x=rng.choice(REPL)))
                cases.append(run_match(t, inst_x, tv + ["x"], [], "bound form", bound=True))
                cases.append(run_match(t, inst_x, tv, [], "bound form", bound=True))
            cases.append(run_match(t, inst, tv, [], "bound form", bound=True))
            cases.append(run_match(t, shuffle(inst, rng), tv[:1], [], "bound form", bound=True))
            v0 = tv[0]
            cases.append(run_match(t, inst, tv, [[v0, sigma[v0]]], "consistent pre-match"))
            cases.append(run_match(t, inst, tv, [[v0, ["v", "zz"]]], "contradicting pre-match"))
            if len(tv) == 2:
                # several pre-matched variables are a conjunction of constraints
                v1 = tv[1]
                cases.append(run_match(t, inst, tv, [[v0, sigma[v0]], [v1, sigma[v1]]], "two consistent pre-matches"))
                cases.append(run_match(t, shuffle(inst, rng), tv, [[v0, sigma[v0]], [v1, sigma[v1]]], "two consistent pre-matches"))
                cases.append(run_match(t, inst, tv, [[v0, sigma[v0]], [v1, ["v", "zz"]]], "second pre-match contradicts"))
                cases.append(run_match(t, inst, tv, [[v0, sigma[v1]], [v1, sigma[v1]]], "pre-matches swapped or equal"))
                cases.append(run_match(t, shuffle(inst, rng), tv, [[v0, sigma[v1]], [v1, sigma[v0]]], "pre-matches swapped or equal"))
        for v in tv:
            d = drop_identity(t, v)
            if d is not None:
                sigma = {w: rng.choice(REPL) for w in tv if w != v}
                cases.append(run_match(t, subst(d, sigma), tv, [], "identity dropped"))
        cases.append(run_match(t, rng.choice(others), tv, [], "unrelated target"))
        cases.append(run_match(t, subst(rng.choice(temps), {"p": ["v", "y"], "q": ["c", 2]}), tv, [], "other template's instance"))
    chk.stage("match")
    tl = [{k: c[k] for k in ("kind", "template", "target", "free", "pre", "sigma", "err", "vars")} for c in cases]
    out = tlc.judge_batch("ExprContracts", tl, chunk=1500, chk=chk, jobs=12)
    chk.stage("tlc_judge")
    bad = {}
    for t in out["BAD"]:
        bad.setdefault(t[1], set()).add(t[2])
    for k in sorted(bad):
        c = cases[k]
        for clause in sorted(bad[k]):
            chk.violation("C17:%s:%s:%s" % (clause, c["note"].replace(" ", "-"), c["err"] or "substitution-returned"),
                          "%s: match(%s, %s, free=%s, pre=%s) -> %s" % (
                              clause, exprs.show(c["template"]), exprs.show(c["target"]), c["free"],
                              [(n, exprs.show(x)) for n, x in c["pre"]],
                              c["err"] or [(n, exprs.show(x)) for n, x in c["sigma"]]),
                          {k2: c[k2] for k2 in ("template", "target", "free", "pre", "note")})
    chk.coverage.update({
        "evaluations": len(cases),
        "distinct_nontrivial": sum(1 for c in cases if c["sigma"]),
        "rule": "templates = every ExprGen behaviour with <= %d nodes over p, q, x, constants, sums, products, "
                "negation and calls (positional and keyword) that mentions p or q; targets = instances under random "
                "substitutions (plain, children shuffled, identity operand dropped), unrelated expressions and other "
                "templates' instances; free sets {p,q} and {p,q,x}; consistent and contradicting pre-matches; "
                "non-trivial = a substitution was returned" % maxt,
        "exhaustive": True, "exhaustive_scope": "all templates up to %d nodes (targets and substitutions sampled)" % maxt,
        "templates": len(temps), "matches_returned": sum(1 for c in cases if c["sigma"]),
        "errors": {e: sum(1 for c in cases if c["err"] == e) for e in sorted({c["err"] for c in cases if c["err"]})},
        "cases_with_violation": len(bad),
        "traces_validated_against_impl": len(cases),
        "samples": sample([{"template": exprs.show(c["template"]), "target": exprs.show(c["target"]),
                            "sigma": [(n, exprs.show(x)) for n, x in c["sigma"]]} for c in cases if c["sigma"]], 5),
    })
    chk.assumptions += ["'for all interpretations of the function symbols' is sampled by two interpretations",
                        "completeness (finding a match whenever one exists) is not demanded by the property"]


def replay(chk, rep):
    c0 = rep["case"]
    c = run_match(c0["template"], c0["target"], c0["free"], c0["pre"], c0["note"], bound=(c0["note"] == "bound form"))
    print("match(%s, %s, free=%s, pre=%s) -> %s" % (exprs.show(c["template"]), exprs.show(c["target"]), c["free"], c["pre"],
                                                    c["err"] or [(n, exprs.show(x)) for n, x in c["sigma"]]))
    tl = {k: c[k] for k in ("kind", "template", "target", "free", "pre", "sigma", "err", "vars")}
    res = tlc.run_tlc("ExprContracts", cfg="ExprContractsStrict", env={"CASES": tlc.write_cases([tl])}, workers=1)
    chk.add_tlc(res)
    if res.violated:
        print("TLC: %s violated" % res.violated)
        chk.violation(rep["signature"], "replayed case still violates %s" % res.violated, c0)
    else:
        print("TLC: accepted")
    chk.coverage.update({"evaluations": 1, "distinct_nontrivial": 2, "samples": [exprs.show(c["template"])]})
