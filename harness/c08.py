"""C08 -- declared read/write sets cover what a statement really touches.

Statements are built by the real CodeBuilder from ProgGen behaviours over a typed catalogue; the
real interpreter executes each one on an instrumented variable store in several stores (so that
both branches of conditional and short-circuit expressions are driven); specs/Access.tla holds the
static access semantics and judges declared and observed sets."""

import random

import numpy as np

from . import gen, progs, tlc
from .common import sample
from .gen import CMP, C, S, V, acall, assign, if_, yield_

LEVEL = "model_checking"

ARR = ["arr", "<p>v"]
SCALARS = ["a", "b", "n", "m", "<state>y", "<p>q", "<t>", "<dt>"]


def IF(c, t, e):
    return ["if", c, t, e]


def SUB(a, i):
    return ["sub", V(a), [i]]


def alphabet(tier):
    a = [
        assign("a", S(V("b"), C(1))),
        assign("a", SUB("arr", V("n"))),
        assign("arr", V("a"), sub=[V("n")]),
        assign("arr", S(SUB("arr", V("i")), V("b")), sub=[V("i")], loops=[["i", C(0), V("n")]]),
        assign("a", IF(CMP("<", V("a"), V("n")), V("b"), SUB("arr", C(0)))),
        assign("a", ["min", [V("a"), V("b")]]),
        assign("a", ["and", [CMP("<", V("a"), C(2)), CMP("<", V("b"), V("m"))]]),
        assign("a", ["or", [CMP("<", V("n"), C(2)), CMP("<", V("<state>y"), V("m"))]]),
        acall(["a"], "<func>f", [V("b")], kw=[["k", V("n")]]),
        acall(["a", "b"], "<func>g2", [S(V("a"), V("<p>q"))]),
        yield_(S(V("<state>y"), V("a")), time=S(V("<t>"), V("<dt>"))),
        assign("<p>v", V("i"), sub=[S(V("j"), C(0))], loops=[["i", C(0), V("n")], ["j", V("i"), V("m")]]),
        assign("<state>y", ["pow", V("<state>y"), C(2)]),
        assign("a", ["prod", [C(-1), ["quot", V("b"), C(2)]]]),
        assign("<p>q", SUB("<p>v", S(V("n"), C(-1)))),
        assign("a", ["call", V("<func>f"), [SUB("arr", V("m"))], [["k", IF(V("a"), V("b"), V("n"))]]]),
        {"op": "fail"},
        {"op": "switch", "to": "p1"},
        if_(CMP("<", V("a"), V("b"))),
        if_(["and", [CMP(">", V("<state>y"), C(0)), CMP("<", V("n"), C(3))]]),
        assign("arr", V("b"), loops=[["i", V("n"), V("m")]]),
        # vector-valued right-hand sides: numpy object arrays holding numbers and expressions
        assign("a", ["nparr", [C(0), V("b"), ["prod", [C(2), V("n")]]]]),
        assign("a", ["nparr", [S(C(1), V("b")), S(C(2), V("b")), S(V("m"), V("b"))]]),
        acall(["a"], "<func>f", [["nparr", [C(0), V("<p>q")]]]),
        yield_(["nparr", [C(0), V("a"), V("<state>y")]]),
        # tuple-valued arguments of call statements (not pymbolic expression nodes themselves)
        acall(["a"], "<func>f", [["tuple", [V("b"), V("<p>q")]]]),
        acall(["a", "b"], "<func>g2", [["tuple", [C(1), S(V("n"), V("m"))]]]),
        # implicit solves (declared sets only: no back end executes them): unknown with a name of its own, and an unknown
        # that shares its name with the variable used as initial guess
        gen.implicit(["a"], ["u"], [S(["prod", [V("u"), V("u")]], ["prod", [C(-1), V("b")]])], [["guess", V("n")]]),
        gen.implicit(["<p>q"], ["a"], [S(["prod", [V("a"), V("a")]], ["prod", [C(-1), V("m")]])], [["guess", V("a")]]),
        gen.implicit(["a", "b"], ["u", "w"], [S(V("u"), V("w"), V("<state>y")), S(V("u"), ["prod", [C(-1), V("w")]], V("n"))],
                     [["guess", V("m")], ["tol", V("<dt>")]]),
    ]
    return a


def _expr(form):
    return {
        "const": C(0), "var": V("b"), "sum": S(V("a"), V("m")), "subconst": SUB("arr", C(1)), "subvar": SUB("arr", V("n")),
        "subloop": SUB("<p>v", V("i")), "ifexpr": IF(CMP("<", V("a"), V("n")), V("b"), V("m")),
        "min": ["min", [V("a"), V("m")]], "and": ["and", [CMP("<", V("a"), C(2)), CMP("<", V("b"), V("m"))]],
        "or": ["or", [CMP("<", V("n"), C(2)), CMP("<", V("<state>y"), V("m"))]],
        "call": ["call", V("<func>f"), [V("b")], []], "callkw": ["call", V("<func>f"), [V("m")], [["k", V("n")]]],
        "pow": ["pow", V("<state>y"), C(2)], "quot": ["quot", V("b"), V("m")], "neg": ["prod", [C(-1), V("<p>q")]],
        "statevar": V("<state>y"), "pvar": V("<p>q"), "cmp": CMP("<", V("<dt>"), V("m")),
        "ifnested": IF(CMP("<", V("a"), V("n")), IF(CMP("<", V("b"), V("m")), V("b"), V("<p>q")), V("m")),
        "ifrepeat": S(IF(CMP("<", V("a"), V("n")), IF(CMP("<", V("b"), V("m")), V("b"), V("<p>q")), C(0)),
                      IF(CMP("<", V("b"), V("m")), V("b"), V("<p>q"))),
    }[form]


def shape_calls(sh):
    """Instantiate one StmtGen shape with the variable pool of this module (list of builder calls)."""
    loops = {"none": [], "zero_to_var": [["i", C(0), V("n")]], "var_to_var": [["i", V("n"), V("m")]],
             "two_dependent": [["i", C(0), V("n")], ["j", V("i"), V("m")]],
             "literal_then_var": [["i", C(0), C(2)], ["j", C(0), V("m")]],
             "three_mixed": [["i", C(0), V("n")], ["j", C(0), C(2)], ["k", V("b"), V("m")]]}[sh["loops"]]
    guard = {"none": None, "cmp": CMP("<", V("a"), V("b")),
             "and": ["and", [CMP(">", V("<state>y"), C(0)), CMP("<", V("n"), C(3))]],
             "statecmp": CMP("<", V("<p>q"), V("<dt>"))}[sh["guard"]]
    k = sh["kind"]
    if k == "assign":
        lhs, sub = {"plain": ("a", None), "subconst": ("arr", [C(0)]), "subvar": ("arr", [V("n")]),
                    "subloop": ("arr", [V("i")]), "subsum": ("arr", [S(V("i"), V("m"))]),
                    "pvarsub": ("<p>v", [V("n")]), "statevar": ("<state>y", None)}[sh["lhs"]]
        st = assign(lhs, _expr(sh["rhs"]), sub=sub, loops=loops)
    elif k in ("acall0", "acall1", "acall2"):
        kw = {"none": [], "var": [["k", V("n")]], "sum": [["k", S(V("n"), V("<dt>"))]], "sub": [["k", SUB("arr", V("m"))]],
              "ifexpr": [["k", IF(V("a"), V("b"), V("n"))]]}[sh["kw"]]
        lhs, f = {"acall0": ([], "<func>f"), "acall1": (["a"], "<func>f"), "acall2": (["a", "b"], "<func>g2")}[k]
        st = acall(lhs, f, [_expr(sh["rhs"])], kw=kw if f == "<func>f" else [])
    elif k == "yield":
        st = yield_(_expr(sh["rhs"]), time={"t": V("<t>"), "t_plus_dt": S(V("<t>"), V("<dt>")), "var": V("m")}[sh["time"]])
    elif k == "fail":
        st = {"op": "fail"}
    elif k == "raise":
        st = {"op": "raise", "kind": "VerifError", "msg": "m"}
    elif k == "restart":
        st = {"op": "restart"}
    else:
        st = {"op": "switch", "to": "p1"}
    return ([if_(guard)] if guard else []) + [st] + ([{"op": "endif"}] if guard else [])


def grammar_programs(chk):
    res = tlc.run_tlc("StmtGen", workers=1, timeout=600)
    chk.add_tlc(res)
    shapes = list(res.json_lines("GEN"))
    if len(shapes) < 1000:
        raise tlc.MachineryError("StmtGen produced %d shapes" % len(shapes))
    return [shape_calls(sh) for sh in shapes], len(shapes)


class RecStore(dict):
    """Variable store that records which names are touched."""

    def __init__(self, *a, **k):
        super().__init__(*a, **k)
        self.reads, self.writes = [], []
        self.on = False

    def _r(self, k):
        if self.on and k not in self.reads:
            self.reads.append(k)

    def _w(self, k):
        if self.on and k not in self.writes:
            self.writes.append(k)

    def __getitem__(self, k):
        self._r(k)
        return super().__getitem__(k)

    def get(self, k, d=None):
        self._r(k)
        return super().get(k, d)

    def __contains__(self, k):
        return super().__contains__(k)          # membership test alone is not a read of the value

    def __setitem__(self, k, v):
        self._w(k)
        super().__setitem__(k, v)

    def __delitem__(self, k):
        self._w(k)
        super().__delitem__(k)


def stores(rng):
    out = []
    for vals in ((1, 5, 2, 3, 1, 1), (4, 0, 1, 2, -2, 0), (0, 0, 3, 1, 5, 2)):
        st = {"a": vals[0], "b": vals[1], "n": vals[2], "m": vals[3], "<state>y": vals[4], "<p>q": vals[5],
              "<t>": 0, "<dt>": 1, "arr": np.arange(5), "<p>v": np.arange(5) * 2}
        out.append(st)
    return out


FUNCS = {"<func>f": lambda x, k=0: 2 * x + k + 1, "<func>g2": lambda x: (x + 1, x * 3)}


def observe(stmt, base):
    from dagrt.exec_numpy import NumpyInterpreter
    from dagrt.language import DAGCode, ExecutionPhase
    code = DAGCode({"p0": ExecutionPhase("p0", "p0", frozenset([stmt]))}, "p0")
    it = NumpyInterpreter(code, FUNCS)
    st = RecStore({k: (v.copy() if hasattr(v, "copy") else v) for k, v in base.items()})
    for g in progs.guard_of(stmt.condition) or []:
        st[g[0]] = True
    it.context = st
    it.eval_mapper.context = st
    st.on = True
    err = ""
    try:
        if it.evaluate_condition(stmt):
            getattr(it, stmt.exec_method)(stmt)
    except Exception as e:
        err = type(e).__name__
    st.on = False
    return {"reads": list(st.reads), "writes": list(st.writes), "err": err}


def identity(e):
    return e


def build_cases(calls):
    from pymbolic.mapper import IdentityMapper
    cb, _ = progs.replay_calls("p0", calls)
    out = []
    for stmt in cb.statements:
        rec = progs.stmt_trees(stmt)
        mapped = stmt.map_expressions(IdentityMapper())
        out.append((stmt, {
            "stmt": rec, "text": str(stmt),
            "dreads": sorted(stmt.get_read_variables()), "dwrites": sorted(stmt.get_written_variables()),
            "ireads": sorted(mapped.get_read_variables()), "iwrites": sorted(mapped.get_written_variables()),
        }))
    return out


def run(chk):
    rng = random.Random(chk.seed)
    alpha = alphabet(chk.tier)
    programs, _ = gen.tlc_programs(alpha, 3 if chk.quick else 4, chk=chk)
    gprogs, nshapes = grammar_programs(chk)
    programs = gprogs + programs
    seen = {}
    sts = stores(rng)
    for calls in programs:
        try:
            built = build_cases(calls)
        except Exception as e:
            chk.violation("C08:builder-exception:%s" % type(e).__name__, "builder raised %r on [%s]"
                          % (e, progs.show_prog(calls)), {"calls": calls})
            continue
        for stmt, case in built:
            key = case["text"]
            if key in seen:
                continue
            case["obs"] = [observe(stmt, st) for st in sts]
            case["calls"] = calls
            seen[key] = case
    cases = list(seen.values())
    chk.stage("observe")
    tl = [{k: c[k] for k in ("stmt", "dreads", "dwrites", "ireads", "iwrites", "obs")} for c in cases]
    out = tlc.judge_batch("Access", tl, chunk=2000, tags=("BAD", "DRIFT"), chk=chk)
    chk.stage("tlc_judge")
    for t in out["BAD"]:
        c = cases[t[1]]
        clause = t[2]
        missing = sorted(t[3]) if t[3] else []
        sig = "C08:%s:%s:%s" % (clause, c["stmt"]["kind"], "missing=" + ",".join(missing) if missing else "-")
        chk.violation(sig, "%s violated by statement '%s': declared reads %s writes %s; after identity map %s / %s; "
                      "observed %s" % (clause, c["text"], c["dreads"], c["dwrites"], c["ireads"], c["iwrites"],
                                       [(o["reads"], o["writes"]) for o in c["obs"]]),
                      {"calls": c["calls"], "text": c["text"]})
    drift = sorted({t[1] for t in out["DRIFT"]})
    nobs = sum(len(c["obs"]) for c in cases)
    chk.coverage.update({
        "evaluations": nobs,
        "distinct_nontrivial": sum(1 for c in cases if len({tuple(o["reads"]) for o in c["obs"]}) > 1
                                   or len(c["dreads"]) >= 2),
        "rule": "statements = distinct statements the real CodeBuilder produces for all ProgGen behaviours of "
                "depth <= %d over a %d-call typed catalogue (guards included) plus every well-formed shape of the "
                "statement grammar StmtGen.tla (kind x rhs form x assignee form x loop nest x guard x keyword x time), each executed by the real "
                "interpreter in 3 stores; non-trivial = at least two declared reads or store-dependent accesses"
                % (3 if chk.quick else 4, len(alpha)),
        "exhaustive": True, "exhaustive_scope": "all catalogue statements under all catalogue guards (nesting <= 2)",
        "statements": len(cases), "observations": nobs, "grammar_shapes": nshapes,
        "observations_with_exception": sum(1 for c in cases for o in c["obs"] if o["err"]),
        "impl_model_conformant": not drift,
        "static_semantics_drift": [cases[k]["text"] for k in drift][:5],
        "traces_validated_against_impl": nobs,
        "samples": sample([{"stmt": c["text"], "declared": [c["dreads"], c["dwrites"]],
                            "observed": [(o["reads"], o["writes"]) for o in c["obs"]]} for c in cases], 4),
    })
    chk.assumptions += ["AssignImplicit is not executed by any back end and is covered statically only "
                        "(not generated here)", "a membership test on the store is not counted as a read"]


def replay(chk, rep):
    sts = stores(random.Random(0))
    hit = False
    for stmt, case in build_cases(rep["case"]["calls"]):
        if case["text"] != rep["case"]["text"]:
            continue
        case["obs"] = [observe(stmt, st) for st in sts]
        print(case["text"], "declared", case["dreads"], case["dwrites"], "observed",
              [(o["reads"], o["writes"]) for o in case["obs"]])
        path = tlc.write_cases([{k: case[k] for k in ("stmt", "dreads", "dwrites", "ireads", "iwrites", "obs")}])
        res = tlc.run_tlc("Access", cfg="AccessStrict", env={"CASES": path}, workers=1)
        chk.add_tlc(res)
        if res.violated:
            print("TLC: %s violated" % res.violated)
            hit = True
    if hit:
        chk.violation(rep["signature"], "replayed statement still violates the contract", rep["case"])
    else:
        print("TLC: no violation")
    chk.coverage.update({"evaluations": 1, "distinct_nontrivial": 1, "samples": [rep["case"]["text"]]})
