"""C02 -- recorded dependencies make every admissible schedule equal to program order.

TLC (specs/Sched.tla) explores every linear extension of the dependency edges that the real
CodeBuilder recorded, under every valuation of the guard flags, and compares with the written
order.  Programs are behaviours of specs/ProgGen.tla replayed into the real builder."""

import random

from . import exprs, gen, progs, tlc
from .common import sample
from .gen import CMP, C, S, V, acall, assign, if_, yield_

LEVEL = "model_checking"


def alphabet(tier):
    a = [
        assign("a", S(V("b"), C(1))),
        assign("b", V("a")),
        assign("a", V("<state>y")),
        assign("<state>y", S(V("a"), V("<state>y"))),
        assign("arr", V("a"), sub=[V("n")]),                       # subscript variable on the lhs
        assign("a", ["sub", V("arr"), [C(0)]]),
        assign("arr", V("b"), sub=[V("i")], loops=[["i", C(0), V("n")]]),   # loop bound in a variable
        assign("n", C(2)),
        acall(["a", "b"], "<func>g", [V("a")], kw=[["k", V("b")]]),
        acall(["b"], "<func>g", [["tuple", [V("a"), V("n")]]]),      # tuple-valued argument (not an expression node)
        yield_(V("<state>y")),
        yield_(V("a"), comp="a", time=V("n")),
        {"op": "fail"},
        {"op": "switch", "to": "p1"},
        if_(CMP("<", V("a"), V("b"))),
        if_(CMP(">", V("<state>y"), C(0))),
        assign("<p>q", C(1)),
        assign("<cond>", V("a")),                                  # user name that looks generated
        {"op": "fresh", "as": "$f0", "prefix": "temp"},
        assign("$f0", V("a")),
        assign("temp", V("<p>q")),
        gen.implicit(["<p>q"], ["a"], [S(["prod", [V("a"), V("a")]], ["prod", [C(-1), V("b")]])], [["guess", V("a")]]),
        gen.implicit(["b"], ["u"], [S(V("u"), V("<state>y"))], [["guess", V("n")]]),
    ]
    if tier == "quick":
        return a
    return a + [
        assign("<cond>_0", V("<cond>")),
        {"op": "raise", "kind": "VerifError", "msg": "m"},
        assign("b", ["sub", V("arr"), [V("a")]]),
        assign("arr", ["sub", V("arr"), [S(V("i"), C(-1))]], sub=[V("i")], loops=[["i", C(1), V("n")]]),
        {"op": "fresh", "as": "$f1", "prefix": "<cond>"},
        assign("$f1", C(0)),
    ]


def build_case(calls):
    cb, info = progs.replay_calls("p0", calls)
    stmts = progs.export_statements(cb.statements)
    return {"stmts": stmts, "vars": progs.all_vars(stmts), "fresh": info["fresh"],
            "calls": calls}


def reach(stmts):
    """Transitive closure of the recorded edges (for diagnosis only)."""
    anc = {}
    for s in stmts:
        a = set()
        for d in s["deps"]:
            a.add(d)
            a |= anc.get(d, set())
        anc[s["idx"]] = a
    return anc


def diagnose(case):
    """Structural predicate of the counterexample input: which conflicting pairs of statements
    are left unordered, classified by the kind of access.  Used for the finding signature and
    the human-readable message only -- the verdict is TLC's."""
    stmts = case["stmts"]
    anc = reach(stmts)
    cats = set()
    for j in stmts:
        jr = set(j["treads"]) | {g for g, _ in j["guard"]}
        jw = set(j["twrites"])
        for i in stmts:
            if i["idx"] >= j["idx"] or i["idx"] in anc[j["idx"]]:
                continue
            ir = set(i["treads"]) | {g for g, _ in i["guard"]}
            iw = set(i["twrites"])
            for v in sorted((iw & jr) | (iw & jw) | (ir & jw)):
                kind = "RAW" if v in iw and v in jr else ("WAW" if v in iw and v in jw else "WAR")
                reader = j if kind == "RAW" else i
                declared = v in reader["dreads"] or v in reader["dwrites"]
                cats.add("%s:%s" % (kind, "declared" if declared or kind == "WAW" else "undeclared-read"))
            nonassign_i = i["halt"] or i["event"]
            nonassign_j = j["halt"] or j["event"]
            if nonassign_i and nonassign_j:
                cats.add("fence:two-nonassignments")
            if nonassign_j and any(progs.is_persistent(w) for w in iw):
                cats.add("fence:earlier-persistent-write")
            if i["halt"] and any(progs.is_persistent(w) for w in jw):
                cats.add("fence:persistent-write-after-halt")
    return sorted(cats)


def judge(chk, cases, label):
    """Run the batch through TLC; record violations.  Returns the set of bad case indices."""
    bad = {}
    for t in tlc.judge_batch("Sched", cases, chunk=1000, workers=2, chk=chk)["BAD"]:
        bad.setdefault(t[1], set()).add(t[2])
    for k in sorted(bad):
        case = cases[k]
        cats = diagnose(case)
        for clause in sorted(bad[k]):
            sig = "C02:%s:%s" % (clause, "+".join(cats) if clause != "FreshNames" else "collision")
            what = "%s violated for program [%s]; unordered conflicts: %s" % (
                clause, progs.show_prog(case["calls"]), ", ".join(cats) or "-")
            chk.violation(sig, what, {"calls": case["calls"], "clause": clause})
    return bad


def design_level(chk):
    """Builder.tla: the as-coded dependency algorithm satisfies the schedule contract over an abstract alphabet
    (exhaustive); the same abstract programs are replayed into the real builder and the edges compared (drift)."""
    depth = 3 if chk.quick else 4
    cfg = tlc.temp_cfg('CONSTANTS\n Depth = %d\n Vars = {"a", "b", "s"}\n PersVars = {"s"}\n WAR = TRUE\nINIT Init\nNEXT Next\n'
                       'CHECK_DEADLOCK FALSE\nINVARIANT ScheduleIndependence\nINVARIANT FenceOrder\nINVARIANT EdgesBackwards\n'
                       'INVARIANT Dump\n' % depth)
    res = tlc.run_tlc("Builder", cfg=cfg, timeout=3000)
    chk.add_tlc(res)
    if res.violated:
        chk.violation("C02:design:%s" % res.violated, "as-coded builder model violates %s" % res.violated, {"cfg": "Builder"},
                      "\n".join(h for h, _b in res.error_trace()))
    # conformance of the model's edges with the real builder
    name = {"a": "a", "b": "b", "s": "<state>s"}
    drift = []
    nprog = 0
    for prog in res.json_lines("GEN"):
        nprog += 1
        from dagrt.language import CodeBuilder
        cb = CodeBuilder("p0")
        stack = []          # open context managers, with the flag statement index they belong to
        for k, st in enumerate(prog, 1):
            guard = [tuple(g) for g in st["guard"]]
            # close / open blocks so that the builder's condition stack equals the model's guard
            while [g for g, _cm in stack] != guard[:len(stack)] or len(stack) > len(guard):
                _g, cm = stack.pop()
                cm.__exit__(None, None, None)
            for g in guard[len(stack):]:
                if g[1]:
                    raise AssertionError("flag statement must precede its block")
                cm = cb.else_()
                cm.__enter__()
                stack.append((g, cm))
            rhs = exprs.from_json(["sum", [["v", name[r]] for r in sorted(st["reads"])] + [["c", 1]]])
            if st["kind"] == "flag":
                cm = cb.if_(exprs.from_json(["cmp", ">", ["sum", [["v", name[r]] for r in sorted(st["reads"])] + [["c", 0]]], ["c", 0]]))
                cm.__enter__()
                stack.append(((k, True), cm))
            elif st["kind"] == "assign":
                cb.assign(exprs.from_json(["v", name[sorted(st["writes"])[0]]]), rhs)
            elif st["kind"] == "yield":
                cb.yield_state(rhs, "c", exprs.from_json(["c", 0]), "final")
            else:
                cb.fail_step()
        real = list(cb.statements)
        index = {s_.id: i + 1 for i, s_ in enumerate(real)}
        if len(real) != len(prog):
            drift.append({"program": prog, "why": "statement count"})
            continue
        for i, (st, rs) in enumerate(zip(prog, real), 1):
            if sorted(index[d] for d in rs.depends_on) != sorted(st["deps"]):
                drift.append({"program": prog, "stmt": i, "model": sorted(st["deps"]),
                              "real": sorted(index[d] for d in rs.depends_on)})
                break
    return {"spec": "Builder.tla", "depth": depth, "distinct_states": res.distinct, "generated": res.generated,
            "programs_compared_with_real_builder": nprog, "edge_drift": drift[:3], "impl_model_conformant": not drift}


def read_position_family(chk, rng):
    """For every statement shape of specs/StmtGen.tla and every variable it mentions in ANY position (right-hand side,
    subscript index, loop bound, guard, keyword value, time): [v <- 1; the statement; v <- 2] (read-after-write and
    write-after-read around every read position), and for what it writes [w <- 1; the statement; zz <- w]."""
    from . import c08
    res = tlc.run_tlc("StmtGen", workers=1, timeout=600)
    chk.add_tlc(res)
    out = []
    for sh in res.json_lines("GEN"):
        calls = c08.shape_calls(sh)
        names = set()
        for c in calls:
            for key in ("rhs", "c", "e", "time"):
                if key in c and isinstance(c[key], list):
                    exprs.variables(c[key], names)
            for key in ("sub", "args"):
                for e in c.get(key) or []:
                    exprs.variables(e, names)
            for _k, e in c.get("kw") or []:
                exprs.variables(e, names)
            for _i, lo, hi in c.get("loops") or []:
                exprs.variables(lo, names)
                exprs.variables(hi, names)
        loopvars = {i for c in calls for i, _lo, _hi in c.get("loops") or []}
        for v in sorted(n for n in names if n not in loopvars and not n.startswith("<func>") and not n.startswith("<builtin>")):
            out.append([assign(v, C(1))] + calls + [assign(v, C(2))])
        for c in calls:
            ws = [c["lhs"]] if c["op"] == "assign" else (c["lhs"] if c["op"] == "acall" else [])
            for w in ws:
                out.append([assign(w, C(1))] + calls + [assign("zz", V(w))])
    if len(out) < 3000:
        raise tlc.MachineryError("read-position family has only %d programs" % len(out))
    return out


def fresh_family():
    """fresh_var_name with overlapping prefixes (a name handed out earlier is itself a prefix later), reserved before
    any statement mentions them, with and without a user variable of the same spelling: every name handed out is new."""
    import itertools
    pool = ["rhs", "rhs_0", "rhs_0_0", "temp_0", "<cond>"]
    out = []
    for n in (2, 3, 4):
        for seq in itertools.product(pool, repeat=n):
            if n == 4 and len(set(seq)) > 2:
                continue
            fr = [{"op": "fresh", "as": "$f%d" % k, "prefix": pfx} for k, pfx in enumerate(seq)]
            use = [assign("$f%d" % k, C(k)) for k in range(n)]
            out.append(fr + use)
            out.append([assign("rhs_0", C(7))] + fr + use)
            out.append(fr[:1] + use[:1] + fr[1:] + use[1:])
    return out


def run(chk):
    rng = random.Random(chk.seed)
    des = design_level(chk)
    chk.stage("design_level")
    alpha = alphabet(chk.tier)
    depth = 3 if chk.quick else 4
    programs, res = gen.tlc_programs(alpha, depth, chk=chk)
    n_exh = len(programs)
    sim, _ = gen.tlc_programs(alpha, 8, simulate=300 if chk.quick else 6000, seed=chk.seed, chk=chk)
    programs += [p for p in sim if len(p) > depth]
    n_sim = len(programs) - n_exh
    for _ in range(200 if chk.quick else 4000):
        programs.append(gen.random_program(rng, alpha, rng.randint(6, 11)))
    fam = read_position_family(chk, rng)
    programs += rng.sample(fam, 2500) if chk.quick else fam
    programs += fresh_family()
    cases = []
    builder_errors = 0
    for calls in programs:
        try:
            cases.append(build_case(calls))
        except Exception as e:        # the builder refused the call sequence
            builder_errors += 1
            chk.violation("C02:builder-exception:%s" % type(e).__name__,
                          "builder raised %r on [%s]" % (e, progs.show_prog(calls)), {"calls": calls})
    bad = judge(chk, cases, "main")
    multi = sum(1 for c in cases if any(
        len([s for s in c["stmts"] if set(s["deps"]) <= set(range(1, k))]) > k
        for k in range(1, len(c["stmts"]))))
    nontrivial = len({progs.show_prog(c["calls"]) for c in cases
                      if len(c["stmts"]) >= 2 and _has_choice(c)})
    chk.coverage.update({
        "evaluations": len(cases),
        "distinct_nontrivial": nontrivial,
        "rule": "builder programs = all ProgGen behaviours up to depth %d over a %d-call alphabet "
                "(exhaustive) + TLC-simulated depth-8 behaviours + seeded 6-11 call programs + the read-position family "
                "(every StmtGen statement shape between a writer and an overwriter of each variable it mentions); "
                "non-trivial = at least two statements and at least two admissible schedules"
                % (depth, len(alpha)),
        "exhaustive": True,
        "exhaustive_scope": "all call sequences of length <= %d over the alphabet; for each, all "
                            "linear extensions x all guard valuations" % depth,
        "programs_exhaustive": n_exh, "programs_simulated": n_sim,
        "programs_sampled": len(programs) - n_exh - n_sim,
        "programs_with_violation": len(bad),
        "traces_validated_against_impl": len(cases),
        "design_model": des, "impl_model_conformant": des["impl_model_conformant"],
        "samples": sample([progs.show_prog(c["calls"]) for c in cases], 6),
    })
    chk.assumptions += [
        "values are Herbrand terms over the harness's own read/write traversal of each statement "
        "(harness/progs.py true_access); function symbols are pure",
        "each flag statement gets an independent truth value (over-approximates feasible valuations)",
    ]


def _has_choice(case):
    stmts = case["stmts"]
    anc = reach(stmts)
    n = len(stmts)
    for i in range(1, n + 1):
        for j in range(i + 1, n + 1):
            if i not in anc[j]:
                return True
    return False


def replay(chk, rep):
    case = build_case(rep["case"]["calls"])
    path = tlc.write_cases([case])
    res = tlc.run_tlc("Sched", cfg="SchedStrict", env={"CASES": path}, workers=1)
    chk.add_tlc(res)
    print(progs.show_prog(case["calls"]))
    for s in case["stmts"]:
        print("  %d %-40s deps=%s guard=%s reads=%s" % (s["idx"], s["body"], s["deps"], s["guard"], s["treads"]))
    if res.violated:
        print("TLC: invariant %s violated; counterexample schedule:" % res.violated)
        for h, b in res.error_trace():
            print("   ", h)
        cats = diagnose(case)
        chk.violation("C02:%s:%s" % (res.violated.replace("Strict", ""), "+".join(cats)),
                      "replayed case still violates %s" % res.violated, rep["case"])
    else:
        print("TLC: no violation on this case")
    chk.coverage.update({"evaluations": 1, "distinct_nontrivial": 1, "samples": [progs.show_prog(case["calls"])]})
