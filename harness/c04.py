"""C04 -- each step runs every statement of the phase once, after its dependencies.

Design level: specs/Controller.tla (as-coded plan construction with every iteration order of the
unordered containers) is model-checked against the contract of specs/ControllerBase.tla.
Code level: the real ExecutionController is driven with scripted targets over enumerated and
random dependency graphs; every recorded callback sequence is validated by TLC against the
contract (specs/TraceController.tla)."""

import itertools
import random

from . import tlc
from .common import sample

LEVEL = "model_checking"

SPELLINGS = [lambda i: "s%d" % i, lambda i: "stmt_%d_x" % (7 * i + 3), lambda i: chr(96 + i) * 3,
             lambda i: "p0_%d" % (i - 1)]


class Cut(Exception):
    pass


class Recorder:
    """Target object handed to ExecutionController.__call__."""

    def __init__(self, ctrl, idx, guards, reqs, cut, events):
        self.ctrl, self.idx, self.guards, self.reqs, self.cut = ctrl, idx, guards, reqs, cut
        self.events = events
        self.cur = None
        self.ids = {v: k for k, v in idx.items()}
        self.visits = 0

    def _finish(self, plan):
        if self.cur is not None:
            self.cur["plan"] = [self.idx[p] for p in plan]
            self.events.append(self.cur)
            self.cur = None

    def evaluate_condition(self, stmt):
        self._finish([stmt.id] + list(self.ctrl.plan))
        self.visits += 1
        if self.visits > 3 * len(self.idx) + 6:
            raise Cut()                      # a controller that never finishes the step: the repeated visits are in the trace
        s = self.idx[stmt.id]
        self.cur = {"ev": "pop", "s": s, "g": bool(self.guards[s - 1]), "req": [], "cut": False,
                    "executed": sorted(self.idx[e] for e in self.ctrl.executed_ids)}
        return self.guards[s - 1]

    def exec_Assign(self, stmt):
        s = self.idx[stmt.id]
        if s == self.cut:
            self.cur["cut"] = True
            raise Cut()
        req = self.reqs.get(s)
        if req:
            self.cur["req"] = sorted(req)
            return None, [self.ids[r] for r in req]
        return None


def record(n, deps, steps, spell):
    """Run the real controller on the graph for the scripted steps.  Returns the event list."""
    from dagrt.language import Assign, DAGCode, ExecutionController, ExecutionPhase
    idx = {spell(i): i for i in range(1, n + 1)}
    ids = {i: s for s, i in idx.items()}
    stmts = [Assign(id=ids[i], assignee="x%d" % i, assignee_subscript=(), expression=i,
                    depends_on=[ids[d] for d in deps[i - 1]]) for i in range(1, n + 1)]
    phase = ExecutionPhase(name="p", next_phase="p", statements=frozenset(stmts))
    code = DAGCode(phases={"p": phase}, initial_phase="p")
    ctrl = ExecutionController(code)
    events = []
    for st in steps:
        ctrl.reset()
        ctrl.update_plan(phase, phase.depends_on)
        events.append({"ev": "begin", "plan": [idx[p] for p in ctrl.plan]})
        rec = Recorder(ctrl, idx, st["guards"], st["reqs"], st["cut"], events)
        try:
            for _ in ctrl(phase, rec):
                pass
            rec._finish(list(ctrl.plan))
            events.append({"ev": "end"})
        except Cut:
            rec._finish(list(ctrl.plan))
    return events


def record_phases(n, deps_by_phase, steps, spell):
    """One real controller serving several phases that use the SAME statement ids with different edges (ids are unique
    within a phase only).  steps = [(phase name, step script)].  Returns one event list per step."""
    from dagrt.language import Assign, DAGCode, ExecutionController, ExecutionPhase
    idx = {spell(i): i for i in range(1, n + 1)}
    ids = {i: s for s, i in idx.items()}
    phases = {}
    for name, deps in deps_by_phase.items():
        stmts = [Assign(id=ids[i], assignee="x%d" % i, assignee_subscript=(), expression=i,
                        depends_on=[ids[d] for d in deps[i - 1]]) for i in range(1, n + 1)]
        phases[name] = ExecutionPhase(name=name, next_phase=name, statements=frozenset(stmts))
    code = DAGCode(phases=phases, initial_phase=sorted(phases)[0])
    ctrl = ExecutionController(code)
    out = []
    for name, st in steps:
        phase = phases[name]
        events = []
        ctrl.reset()
        ctrl.update_plan(phase, phase.depends_on)
        events.append({"ev": "begin", "plan": [idx[p] for p in ctrl.plan]})
        rec = Recorder(ctrl, idx, st["guards"], st["reqs"], st["cut"], events)
        try:
            for _ in ctrl(phase, rec):
                pass
            rec._finish(list(ctrl.plan))
            events.append({"ev": "end"})
        except Cut:
            rec._finish(list(ctrl.plan))
        out.append((name, events))
    return out


def graphs(n):
    """All dependency maps with deps[i] subset of 1..i-1 (every DAG up to isomorphism)."""
    per = []
    for i in range(1, n + 1):
        lower = list(range(1, i))
        per.append([list(c) for r in range(len(lower) + 1) for c in itertools.combinations(lower, r)])
    for combo in itertools.product(*per):
        yield [list(c) for c in combo]


def subsets(n):
    return [list(c) for r in range(1, n + 1) for c in itertools.combinations(range(1, n + 1), r)]


def scenarios(chk):
    rng = random.Random(chk.seed)
    maxn = 4 if chk.quick else 5
    out = []
    for n in range(1, maxn + 1):
        subs = subsets(n)
        for deps in graphs(n):
            # exhaustive: every single request (requester, requested set), all guards true
            reqlist = [(r, R) for r in range(1, n + 1) for R in subs]
            if n == 5:
                reqlist = rng.sample(reqlist, 12)
            base = {"guards": [True] * n, "reqs": {}, "cut": 0}
            out.append((n, deps, [base]))
            for r, R in reqlist:
                out.append((n, deps, [{"guards": [True] * n, "reqs": {r: R}, "cut": 0}]))
            # random: guard valuations, two requests, cuts, two steps
            for _ in range(4 if chk.quick else 10):
                steps = []
                for _s in range(rng.randint(1, 2)):
                    reqs = {}
                    for _r in range(rng.randint(0, 2)):
                        reqs[rng.randint(1, n)] = rng.choice(subs)
                    steps.append({"guards": [rng.random() < 0.7 for _ in range(n)], "reqs": reqs,
                                  "cut": rng.choice([0, 0] + list(range(1, n + 1)))})
                out.append((n, deps, steps))
    # larger random graphs
    for _ in range(150 if chk.quick else 3000):
        n = rng.randint(6, 12)
        deps = [sorted(rng.sample(range(1, i), rng.randint(0, min(3, i - 1)))) for i in range(1, n + 1)]
        perm = list(range(1, n + 1))
        rng.shuffle(perm)           # ids no longer topologically numbered
        steps = []
        for _s in range(rng.randint(1, 3)):
            reqs = {rng.randint(1, n): rng.sample(range(1, n + 1), rng.randint(1, 3))
                    for _r in range(rng.randint(0, 3))}
            steps.append({"guards": [rng.random() < 0.8 for _ in range(n)], "reqs": reqs,
                          "cut": rng.choice([0, 0, 0] + list(range(1, n + 1)))})
        pdeps = [None] * n
        for i in range(1, n + 1):
            pdeps[perm[i - 1] - 1] = sorted(perm[d - 1] for d in deps[i - 1])
        out.append((n, pdeps, steps))
    return out


# ---- the interpreter's side of a visit: hand-written guards evaluated at visit time (specs/GuardEval.tla) ----------

def guard_stage(chk, only=None):
    """Chains of hand-written guarded assignments (guards read what other statements of the chain change) run for one
    step by the REAL NumpyInterpreter; per visit: store before, the truth value evaluate_condition returned, store after."""
    import itertools
    from dagrt.exec_numpy import NumpyInterpreter
    from dagrt.language import Assign, DAGCode, ExecutionPhase
    from . import exprs
    from .gen import CMP, C, S, V
    N, H = "<p>n", "<p>hits"
    pos = CMP(">", V(N), C(0))
    pool = [(N, S(V(N), C(-1)), pos), (H, S(V(H), C(1)), pos), (N, S(V(N), C(2)), CMP("<", V(H), C(1))),
            (H, S(V(H), C(10)), pos), (N, C(0), pos), (H, V(N), ["not", pos])]
    rng = random.Random(chk.seed + 7)
    chains = list(itertools.product(range(len(pool)), repeat=3)) + list(itertools.product(range(len(pool)), repeat=4))
    if only is not None:
        chains = [tuple(only)]
    elif chk.quick:
        chains = chains[:216] + rng.sample(chains[216:], 500)

    class Rec(NumpyInterpreter):
        def snap(self):
            return [[k, ["i", int(self.context[k])]] for k in (N, H)]

        def close(self):
            if self.log and self.log[-1]["after"] is None:
                self.log[-1]["after"] = self.snap()

        def evaluate_condition(self, stmt):
            self.close()
            before = self.snap()
            g = super().evaluate_condition(stmt)
            self.log.append({"k": int(stmt.id[1:]), "guard": exprs.to_json(stmt.condition), "lhs": stmt.assignee,
                             "rhs": exprs.to_json(stmt.expression), "before": before, "g": bool(g), "after": None})
            return g
    cases = []
    for chain in chains:
        stmts = [Assign(id="s%d" % (k + 1), assignee=pool[j][0], assignee_subscript=(), expression=exprs.from_json(pool[j][1]),
                        condition=exprs.from_json(pool[j][2]), depends_on=["s%d" % k] if k else [])
                 for k, j in enumerate(chain)]
        code = DAGCode({"p": ExecutionPhase(name="p", next_phase="p", statements=frozenset(stmts))}, "p")
        for n0 in (0, 1, 2):
            it = Rec(code, {})
            it.log = []
            it.set_up(t_start=0, dt_start=1, context={})
            it.context[N], it.context[H] = n0, 0
            err = ""
            try:
                for _ in it.run(max_steps=1):
                    pass
            except Exception as e:
                err = type(e).__name__
            it.close()
            if err:
                chk.violation("C04:interp:exception:%s" % err, "the interpreter raised %s on a hand-written guarded chain %s (n=%d)"
                              % (err, [str(x) for x in stmts], n0), {"guard_chain": list(chain), "n0": n0})
                continue
            cases.append({"n": len(chain), "visits": it.log, "chain": list(chain), "n0": n0})
    out = tlc.judge_batch("GuardEval", [{"n": c["n"], "visits": c["visits"]} for c in cases], chunk=1500, tags=("BAD", "RAN"), chk=chk)
    ran = {t[1] for t in out["RAN"]}
    if len(ran) != len(cases):
        raise tlc.MachineryError("GuardEval: %d of %d cases judged" % (len(ran), len(cases)))
    bad = {}
    for t in out["BAD"]:
        bad.setdefault(t[1], set()).add(t[2])
    for k in sorted(bad):
        c = cases[k]
        for clause in sorted(bad[k]):
            chk.violation("C04:interp:%s" % clause,
                          "real NumpyInterpreter on a hand-written chain %s with n=%d: %s violated; visits (before, guard value, after): %s"
                          % (c["chain"], c["n0"], clause, [(v["before"], v["g"], v["after"]) for v in c["visits"]]),
                          {"guard_chain": c["chain"], "n0": c["n0"]})
    return {"guard_chains": len(cases), "guard_visits": sum(len(c["visits"]) for c in cases),
            "guard_visits_with_false_guard": sum(1 for c in cases for v in c["visits"] if not v["g"])}


def design_level(chk):
    cfg = "Controller" if chk.quick else "Controller5"
    res = tlc.run_tlc("Controller", cfg=cfg, timeout=3000, coverage=not chk.quick)
    chk.add_tlc(res)
    if res.violated:
        chk.violation("C04:design:%s" % res.violated,
                      "as-coded controller model violates %s" % res.violated,
                      {"cfg": cfg}, "\n".join(h + "\n" + b for h, b in res.error_trace()))
    # liveness of the as-coded model: a started step ends (weak fairness, no state constraint)
    live = tlc.run_tlc("Controller", cfg="ControllerLive" if chk.quick else "ControllerLive5", timeout=3000)
    chk.add_tlc(live)
    if live.violated:
        chk.violation("C04:design-liveness:%s" % live.violated,
                      "as-coded controller model violates a liveness property (%s)" % live.violated,
                      {"cfg": "ControllerLive"}, "\n".join(h + "\n" + b for h, b in live.error_trace()))
    if not live.completed:
        raise tlc.MachineryError("ControllerLive did not complete")
    return res


def validate(chk, cases):
    bad = {}
    acc = 0
    drift = 0
    out = tlc.judge_batch("TraceController", cases, chunk=2500, tags=("BAD", "ACC"), chk=chk)
    for t in out["BAD"]:
        bad[t[1]] = (t[2], t[3])
    for t in out["ACC"]:
        acc += 1
        if t[2]:
            drift += 1
    if acc + len(bad) != len(cases):
        raise tlc.MachineryError("trace batch: %d accepted + %d rejected != %d cases"
                                 % (acc, len(bad), len(cases)))
    return bad, acc, drift


def signature(case, pos, clause):
    ev = case["events"][pos - 1] if pos - 1 < len(case["events"]) else {}
    detail = ""
    if clause == "RequestedFirst":
        # which kind of requested statement was overtaken?
        detail = ":requested-statement-was-already-planned" if case.get("req_in_plan") else ":other"
    return "C04:%s%s" % (clause, detail)


def run(chk):
    des = design_level(chk)
    scen = scenarios(chk)
    cases = []
    for k, (n, deps, steps) in enumerate(scen):
        for sp in (SPELLINGS if n <= 5 else SPELLINGS[k % 4:k % 4 + 1]):
            events = record(n, deps, steps, sp)
            cases.append({"n": n, "deps": deps, "events": events,
                          "steps": [{"guards": s["guards"], "reqs": sorted(s["reqs"].items()), "cut": s["cut"]}
                                    for s in steps]})
    # one controller, several phases over the same ids (every pair of graphs on 3 statements, both orders of use)
    rng = random.Random(chk.seed + 1)
    g3 = list(graphs(3))
    pairs = [(a, b) for a in g3 for b in g3 if a != b]
    g4 = list(graphs(4))
    pairs4 = [(rng.choice(g4), rng.choice(g4)) for _ in range(60 if chk.quick else 1500)]
    for a, b in pairs + pairs4:
        n = len(a)
        plain = {"guards": [True] * n, "reqs": {}, "cut": 0}
        withreq = {"guards": [rng.random() < 0.8 for _ in range(n)], "reqs": {rng.randint(1, n): [rng.randint(1, n)]}, "cut": 0}
        script = [("p", plain), ("q", plain), ("p", withreq), ("q", withreq)]
        for k, (name, events) in enumerate(record_phases(n, {"p": a, "q": b}, script, SPELLINGS[0])):
            deps = a if name == "p" else b
            cases.append({"n": n, "deps": deps, "events": events, "steps": [],
                          "shared": {"p": a, "q": b, "step": k,
                                     "script": [[nm, {"guards": st["guards"], "reqs": sorted(st["reqs"].items()), "cut": st["cut"]}]
                                                for nm, st in script]}})
    seen = set()
    uniq = []
    for c in cases:
        key = repr((c["n"], c["deps"], c["events"]))
        if key not in seen:
            seen.add(key)
            uniq.append(c)
    for c in uniq:
        # diagnosis helper: did some request name a statement that was still in the plan?
        c["req_in_plan"] = False
        plan = []
        for e in c["events"]:
            if e["ev"] == "pop" and e["req"] and any(r in plan[1:] for r in e["req"]):
                c["req_in_plan"] = True
            if "plan" in e:
                plan = [e.get("s")] + e["plan"] if e["ev"] == "pop" else e["plan"]
    gstage = guard_stage(chk)
    bad, acc, drift = validate(chk, uniq)
    for k, (pos, clause) in sorted(bad.items()):
        c = uniq[k]
        chk.violation(signature(c, pos, clause),
                      "real ExecutionController: visit #%d of trace violates %s (graph deps=%s, script=%s)"
                      % (pos, clause, c["deps"], c["steps"]),
                      {"n": c["n"], "deps": c["deps"], "steps": c["steps"], "events": c["events"], "shared": c.get("shared")})
    with_req = sum(1 for c in uniq if any(e["ev"] == "pop" and e["req"] for e in c["events"]))
    with_cut = sum(1 for c in uniq if any(e["ev"] == "pop" and e["cut"] for e in c["events"]))
    chk.coverage.update(gstage)
    chk.coverage.update({
        "evaluations": len(cases),
        "distinct_nontrivial": with_req,
        "rule": "scenario = dependency graph x per-step script (guard valuation, requests returned by "
                "statements, cut point) x id spelling; all graphs with <= %d statements, each with every "
                "single request (sampled at the largest size) plus random scripts, and random graphs of "
                "6-12 statements; distinct = distinct recorded callback sequences; non-trivial = at "
                "least one dynamic request" % (4 if chk.quick else 5),
        "traces_validated_against_impl": len(uniq),
        "traces_accepted": acc, "traces_with_cut": with_cut, "traces_with_request": with_req,
        "impl_model_conformant": drift == 0, "traces_with_model_drift": drift,
        "design_model": {"spec": "Controller.tla", "distinct_states": des.distinct,
                         "generated": des.generated, "depth": des.depth,
                         "bounds": "MaxN=%d MaxReq=2 MaxSteps=2, all graphs, all iteration orders"
                                   % (4 if chk.quick else 5),
                         "action_coverage": {k: v for k, v in des.coverage().items()
                                             if k in ("BeginStep", "PlanRoots", "Pop", "EndStep")}},
        "exhaustive": True,
        "exhaustive_scope": "design model: all DAGs, guard valuations, request scripts, cut points and "
                            "container iteration orders within the bounds; code level: all DAGs up to "
                            "the size bound with every single-request script",
        "samples": sample([{"deps": c["deps"], "steps": c["steps"],
                            "visits": [e.get("s") for e in c["events"] if e["ev"] == "pop"]}
                           for c in uniq if c["steps"] and c["steps"][0]["reqs"]], 5),
    })
    chk.assumptions += ["set iteration orders of the real process are sampled through id spellings; "
                        "all orders are covered in the as-coded model only",
                        "the request protocol is exercised through a scripted target (no built-in "
                        "statement of the interpreter returns requests)"]


def replay(chk, rep):
    c = rep["case"]
    if c.get("guard_chain") is not None:
        from .common import use_repo
        use_repo()
        n0 = len(chk.violations)
        guard_stage(chk, only=c["guard_chain"])
        print("hand-written guarded chain %s: %s" % (c["guard_chain"], "still violates the contract" if len(chk.violations) > n0
                                                   else "accepted"))
        chk.coverage.update({"evaluations": 1, "distinct_nontrivial": 1, "samples": [c["guard_chain"]]})
        return
    if c.get("shared"):
        sh = c["shared"]
        script = [(nm, {"guards": st["guards"], "reqs": {int(k): v for k, v in st["reqs"]}, "cut": st["cut"]}) for nm, st in sh["script"]]
        name, events = record_phases(c["n"], {"p": sh["p"], "q": sh["q"]}, script, SPELLINGS[0])[sh["step"]]
        case = {"n": c["n"], "deps": c["deps"], "events": events, "steps": []}
        bad, acc, drift = validate(chk, [case])
        print("shared controller, step %d (phase %s): visits %s -> %s" % (sh["step"], name, [e.get("s") for e in events if e["ev"] == "pop"],
                                                                         bad.get(0, "accepted")))
        if bad:
            chk.violation(rep["signature"], "replayed: %s at visit %d" % (bad[0][1], bad[0][0]), c)
        chk.coverage.update({"evaluations": 1, "distinct_nontrivial": 1, "samples": [c["deps"]]})
        return
    steps = [{"guards": s["guards"], "reqs": {int(k): v for k, v in s["reqs"]}, "cut": s["cut"]}
             for s in c["steps"]]
    found = False
    for sp in SPELLINGS:
        events = record(c["n"], c["deps"], steps, sp)
        case = {"n": c["n"], "deps": c["deps"], "events": events, "steps": c["steps"]}
        bad, acc, drift = validate(chk, [case])
        print("spelling %s: visits %s -> %s" % (sp(1), [e.get("s") for e in events if e["ev"] == "pop"],
                                               bad.get(0, "accepted")))
        if bad:
            found = True
            pos, clause = bad[0]
            case["req_in_plan"] = True
            chk.violation(rep["signature"], "replayed: %s at visit %d" % (clause, pos), c)
    chk.coverage.update({"evaluations": 1, "distinct_nontrivial": 1, "samples": [c["deps"]]})
