"""Shared plumbing of the checks: tiers and seeds, evidence files, replay files,
known findings, the VIOLATION / KNOWN-FINDING protocol and exit codes."""

import hashlib
import json
import os
import sys
import time
import warnings

warnings.filterwarnings("ignore")

VERIF = os.path.dirname(os.path.dirname(os.path.abspath(__file__)))
REPO = os.environ.get("DAGRT_REPO", "/repo")
# runs against a scratch copy (mutants, seeded changes) must not touch the committed evidence
_SCRATCH = os.path.realpath(REPO) != "/repo"
EVIDENCE_DIR = os.environ.get("VERIF_EVIDENCE_DIR") or (
    "/tmp/verif_scratch_evidence" if _SCRATCH else os.path.join(VERIF, "evidence"))
REPLAY_DIR = "/tmp/verif_scratch_replays" if _SCRATCH else os.path.join(VERIF, "replays")
FINDINGS_FILE = os.path.join(VERIF, "known_findings.json")
NCPU = os.cpu_count() or 4


def use_repo():
    """Make ``import dagrt`` resolve to the tree under test (default /repo)."""
    if REPO not in sys.path:
        sys.path.insert(0, REPO)
    os.environ.setdefault("DAGRT_VERIF", "1")
    import dagrt  # noqa: F401
    got = os.path.dirname(os.path.dirname(os.path.abspath(dagrt.__file__)))
    if os.path.realpath(got) != os.path.realpath(REPO):
        raise RuntimeError("dagrt imported from %s, expected %s" % (got, REPO))


def seed_from_env():
    try:
        return int(os.environ.get("VERIF_SEED", "0"))
    except ValueError:
        return 0


def canon(obj):
    return json.dumps(obj, sort_keys=True, separators=(",", ":"), default=str)


def short_hash(obj):
    return hashlib.sha256(canon(obj).encode()).hexdigest()[:12]


def load_findings():
    if not os.path.exists(FINDINGS_FILE):
        return []
    with open(FINDINGS_FILE) as f:
        return json.load(f)["findings"]


class Violation:
    """One violating case as judged by TLC.

    signature : canonical description of the violated clause + entry point + structural
                predicate of the input (matched against known_findings.json)
    what      : one line for humans
    case      : JSON-able input/artefact needed to re-run the case
    detail    : TLC's message / counterexample
    """

    def __init__(self, signature, what, case, detail=""):
        self.signature = signature
        self.what = what
        self.case = case
        self.detail = detail


class Check:
    """Context object handed to every per-property check function."""

    def __init__(self, prop, tier, level, replay=None):
        self.prop = prop
        self.tier = tier
        self.level = level
        self.seed = seed_from_env()
        self.replay = replay
        self.t0 = time.time()
        self.coverage = {}
        self.assumptions = []
        self.violations = []
        self.notes = {}
        self.states = 0
        self.transitions = 0

    def stage(self, name):
        """Record wall time per stage (kept in the evidence under coverage.stages_s)."""
        now = time.time()
        self.coverage.setdefault("stages_s", {})[name] = round(now - getattr(self, "_tstage", self.t0), 2)
        self._tstage = now

    @property
    def quick(self):
        return self.tier == "quick"

    # -- accumulation -------------------------------------------------------
    def add_tlc(self, res):
        self.states += res.distinct
        self.transitions += res.generated

    def violation(self, signature, what, case, detail=""):
        self.violations.append(Violation(signature, what, case, detail))

    # -- finishing ----------------------------------------------------------
    def finish(self):
        """Write evidence, print verdict lines, return the exit code."""
        if not self.coverage.get("evaluations", self.coverage.get("programs", 0)) and not self.violations:
            # nothing was generated, run or judged: that is a failure of the machinery, never "OK"
            from .tlc import MachineryError
            raise MachineryError("%s: no case was evaluated" % self.prop)
        findings = load_findings()
        open_sigs = {f["signature"]: f for f in findings
                     if f["property"] == self.prop and f.get("status") == "open"}
        seen_known = {}
        new = {}
        for v in self.violations:
            if v.signature in open_sigs:
                seen_known.setdefault(v.signature, v)
            else:
                new.setdefault(v.signature, v)
        for sig, v in sorted(seen_known.items()):
            print("KNOWN-FINDING: property=%s %s [%s]" % (self.prop, open_sigs[sig]["what"], sig))
        rc = 0
        os.makedirs(os.path.join(REPLAY_DIR, self.prop), exist_ok=True)
        for sig, v in sorted(new.items()):
            path = os.path.join(REPLAY_DIR, self.prop, "%s.json" % short_hash([sig, v.case]))
            with open(path, "w") as f:
                json.dump({"property": self.prop, "signature": sig, "what": v.what,
                           "case": v.case, "detail": v.detail}, f, indent=1, default=str)
            print("VIOLATION property=%s replay=%s" % (self.prop, path))
            print("  signature: %s" % sig)
            print("  what: %s" % v.what)
            rc = 1
        cov = dict(self.coverage)
        if self.states:
            cov.setdefault("states", self.states)
            cov.setdefault("transitions", max(self.transitions, 1))
        cov.setdefault("traces_validated_against_impl", 0)
        cov["known_findings_seen"] = sorted(seen_known)
        cov["new_violation_signatures"] = sorted(new)
        ev = {
            "property_id": self.prop,
            "tier": self.tier,
            "seed": self.seed,
            "level": self.level,
            "coverage": cov,
            "assumptions": self.assumptions,
            "wall_s": round(time.time() - self.t0, 2),
            "violations": len(new),
        }
        if self.replay is None:
            os.makedirs(EVIDENCE_DIR, exist_ok=True)
            with open(os.path.join(EVIDENCE_DIR, "%s.json" % self.prop), "w") as f:
                json.dump(ev, f, indent=1, default=str)
        print("%s %s: %s  (%d cases, %d TLC states, %.1fs)" % (
            self.prop, self.tier, "OK" if rc == 0 else "VIOLATIONS",
            cov.get("evaluations", cov.get("programs", 0)), self.states, ev["wall_s"]))
        return rc


def sample(seq, n):
    """First, last and evenly spaced elements -- for the 'samples' evidence key."""
    seq = list(seq)
    if len(seq) <= n:
        return seq
    step = max(1, len(seq) // n)
    return [seq[i] for i in range(0, len(seq), step)][:n]
