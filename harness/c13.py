"""C13 -- distinct IR names map to distinct, legal, stable target identifiers.

Lookup histories are behaviours of specs/NameGen.tla over an adversarial key pool (with echo steps
that feed returned identifiers back in as keys); each is replayed into the real Python and Fortran
name managers and the recorded answers are validated by TLC against the contract of
specs/Names.tla (Legal, Injective under the target's comparison, Stable, NotReserved,
StorageClass)."""

import random

from . import tlc
from .common import sample

LEVEL = "model_checking"

LONG = "a_rather_long_variable_name_that_goes_on_and_on_for_seventy_characters"
POOL_SMALL = ["y", "Y", "y^", "y*", "y__0", "<state>y", "<state>Y", "<p>y", "dt"]      # "dt": a per-step name spelled like <dt>
POOL_BIG = POOL_SMALL + ["y_", "state_y", "lploc_y", "localy", "1y", "^", "_0", LONG, "<state>" + LONG,
                         "<func>y", "<func>Y", "p_y", "global_state_y", "func_y", "y_0", "<p>Y",
                         "dagrt_t", "Dagrt_DT", "dagrt_state", "dagrt_refcnt_y", "t", "d", "state", "p", "t>", "e",
                         "y\u00b2", "\u0394t", "k\u2081", "\u00b5"]        # non-ASCII letters and digits (str.isalnum() accepts them)
NS = {"python": ["var", "func"], "fortran": ["var", "func", "refcount", "unique"]}
STRIP = ["self._functions.", "self.", "dagrt_state%"]


def _is_state(k):
    from dagrt.utils import is_state_variable
    return is_state_variable(k)


def run_history(target, hist, pool):
    """Replay one history into a fresh real name manager.  Returns the recorded steps."""
    if target == "python":
        from dagrt.codegen.python import PythonNameManager
        mgr = PythonNameManager()
    else:
        from dagrt.codegen.fortran import FortranNameManager
        mgr = FortranNameManager()
    outs = []
    steps = []
    for ns_i, key in hist:
        ns = NS[target][ns_i - 1]
        if key[0] == "clear":                     # phase-function boundary (only the Python manager has one)
            outs.append(None)
            if target == "python":
                mgr.clear_locals()
                steps.append({"ns": "clear", "key": [], "out": [], "keys": "", "outs": ""})
            continue
        if key[0] == "echo":                      # echo of an earlier answer
            if key[1] > len(outs) or outs[key[1] - 1] is None:
                outs.append(None)
                continue
            k = outs[key[1] - 1]
            for p in STRIP:
                if k.startswith(p):
                    k = k[len(p):]
                    break
        else:
            k = pool[key[1] - 1]
        if key[0] == "echo" and k.lower().startswith("dagrt_"):
            outs.append(None)                     # echoes of the generator's own identifiers are not IR names
            continue
        try:
            if ns == "var" and target == "fortran" and len(outs) % 3 == 2 and not k.lower().startswith("dagrt_") \
                    and not _is_state(k):
                # the rarely used explicit-prefix form of the same lookup: the prefix only seeds a NEW identifier,
                # the IR name stays the key (same name -> same identifier whichever form asked first)
                out = mgr.name_local(k, prefix="aux_")
            elif ns == "var":
                out = mgr[k]
            elif ns == "func":
                out = mgr.name_function(k)
            elif ns == "refcount":
                out = mgr.name_refcount(k)
            else:
                out = mgr.make_unique_fortran_name(k)
        except Exception as e:
            out = "!raised %s" % type(e).__name__
        outs.append(out)
        steps.append({"ns": ns, "key": list(k), "out": list(out), "keys": k, "outs": out})
    return steps


def gen_histories(chk, npool, nns, maxlen, maxkeys, simulate=None):
    cfg = tlc.temp_cfg("CONSTANTS\n NPool = %d\n NNs = %d\n MaxLen = %d\n MaxKeys = %d\n"
                       "INIT Init\nNEXT Next\nCHECK_DEADLOCK FALSE\nINVARIANT Dump\n"
                       % (npool, nns, maxlen, maxkeys))
    if simulate:
        res = tlc.run_tlc("NameGen", cfg=cfg, workers=1, simulate="num=%d" % simulate, depth=maxlen + 1,
                          seed=chk.seed)
    else:
        res = tlc.run_tlc("NameGen", cfg=cfg, workers=4, timeout=1800)
    chk.add_tlc(res)
    seen = set()
    out = []
    for h in res.json_lines("GEN"):
        key = repr(h)
        if key not in seen:
            seen.add(key)
            out.append(h)
    return out


def predicate(target, case, pos, clause):
    """Structural predicate of the failing lookup for the finding signature."""
    st = case["steps"][pos - 1]
    out = st["outs"]
    if clause == "NotReserved":
        body = out.split("%")[-1].lower()
        hit = [r for r in RESERVED["exact"] if r == body] or ["prefix " + r for r in RESERVED["prefix"] if body.startswith(r)]
        return "collides-with-%s" % (hit[0] if hit else "?")
    if clause == "Injective":
        prior_keys = [s["keys"] for s in case["steps"][:pos - 1] if s["outs"].lower() == out.lower()]
        if any(k.lower().startswith("dagrt_refcnt_") for k in prior_keys + [st["keys"]]):
            return "ir-name-equal-to-an-internal-refcount-key"
    if clause == "Injective":
        prior = [s["outs"] for s in case["steps"][:pos - 1]]
        if out not in prior and out.lower() in [p.lower() for p in prior]:
            return "identifiers-differ-only-in-letter-case"
        return "identical-identifier"
    if clause == "Legal":
        body = out
        for p in STRIP:
            if body.startswith(p):
                body = body[len(p):]
                break
        if out.startswith("!raised"):
            return "lookup-raised"
        if len(body) > 63 and target == "fortran" and body.replace("_", "a").isalnum() and not body[0].isdigit():
            return "longer-than-63-characters"
        if body[:1].isdigit():
            return "starts-with-digit"
        return "illegal-character"
    return "-"


RESERVED = {"exact": [], "prefix": []}


def reserved_file():
    """Identifiers the Fortran generator uses for itself, read from its source."""
    import os
    import re
    from .common import REPO
    with open(os.path.join(REPO, "dagrt", "codegen", "fortran.py")) as f:
        toks = {t.lower() for t in re.findall(r"\bdagrt_[A-Za-z0-9_]*", f.read())}
    toks.discard("dagrt_")
    exact = sorted(t for t in toks if not t.endswith("_"))
    prefix = sorted(t for t in toks if t.endswith("_"))
    RESERVED["exact"], RESERVED["prefix"] = exact, prefix
    return tlc.write_cases({"exact": [list(t) for t in exact], "prefix": [list(t) for t in prefix]},
                           prefix="reserved_"), exact, prefix


def run(chk):
    rng = random.Random(chk.seed)
    rpath, rexact, rprefix = reserved_file()
    cases = []
    meta = []
    for target in ("python", "fortran"):
        nns = len(NS[target])
        # the Python manager has a phase-function boundary (clear_locals): one lookup more, so that a boundary can sit
        # between two lookups on each side
        hs = gen_histories(chk, len(POOL_SMALL), nns, (3 if chk.quick else 4) + (target == "python"), 2)
        for h in hs:
            cases.append({"target": target, "steps": run_history(target, h, POOL_SMALL)})
            meta.append(("exhaustive", h))
        sim = gen_histories(chk, len(POOL_BIG), nns, 6, 4, simulate=1500 if chk.quick else 40000)
        for h in sim:
            cases.append({"target": target, "steps": run_history(target, h, POOL_BIG)})
            meta.append(("simulated", h))
    chk.stage("replay")
    cases_tlc = [{"target": c["target"], "steps": [{"ns": s["ns"], "key": s["key"], "out": s["out"]}
                                                  for s in c["steps"]]} for c in cases]
    out = tlc.judge_batch("Names", cases_tlc, chunk=4000, tags=("BAD", "ACC"), chk=chk,
                          env={"RESERVED": rpath})
    chk.stage("tlc_judge")
    bad = sorted({(t[1], t[2], t[3]) for t in out["BAD"]})
    if len(out["ACC"]) != len(cases):
        raise tlc.MachineryError("Names batch: %d of %d histories consumed" % (len(out["ACC"]), len(cases)))
    for k, pos, clause in bad:
        c = cases[k]
        pred = predicate(c["target"], c, pos, clause)
        st = c["steps"][pos - 1]
        sig = "C13:%s:%s:%s:%s" % (clause, c["target"], st["ns"], pred)
        hist = [(s["ns"], s["keys"], s["outs"]) for s in c["steps"][:pos]]
        chk.violation(sig, "%s name manager violates %s at lookup %d of %s" % (c["target"], clause, pos, hist),
                      {"target": c["target"], "lookups": [[s["ns"], s["keys"]] for s in c["steps"]]})
    n_exh = sum(1 for m in meta if m[0] == "exhaustive")
    chk.coverage.update({
        "evaluations": len(cases),
        "distinct_nontrivial": sum(1 for c in cases if len({s["keys"] for s in c["steps"]}) >= 2),
        "rule": "lookup histories = all NameGen behaviours of length <= %d over an 8-key pool (<= 2 distinct "
                "keys, every namespace, echo steps) for both managers + simulated histories of length <= 6 over "
                "a %d-key pool; non-trivial = at least two distinct keys" % (3 if chk.quick else 4, len(POOL_BIG)),
        "exhaustive": True,
        "exhaustive_scope": "all histories within the small-pool bounds",
        "histories_exhaustive": n_exh, "histories_simulated": len(cases) - n_exh,
        "histories_rejected": len({b[0] for b in bad}), "lookups_rejected": len(bad),
        "fortran_reserved": {"exact": rexact, "prefix": rprefix},
        "traces_validated_against_impl": len(cases),
        "samples": sample([[(s["ns"], s["keys"], s["outs"]) for s in c["steps"]] for c in cases if len(c["steps"]) >= 3], 5),
    })
    chk.assumptions += ["IR names beginning with dagrt_ are excluded (documented precondition)",
                        "Fortran identifiers: letters, digits, underscore, first a letter, <= 63 characters, "
                        "compared case-insensitively; Python identifiers: ASCII rule"]


def replay(chk, rep):
    c = rep["case"]
    target = c["target"]
    pool = [k for _ns, k in c["lookups"]]
    hist = [[NS[target].index(ns) + 1, ["k", i + 1]] for i, (ns, _k) in enumerate(c["lookups"])]
    steps = run_history(target, hist, pool)
    for s in steps:
        print("  %-8s %-30r -> %r" % (s["ns"], s["keys"], s["outs"]))
    path = tlc.write_cases([{"target": target, "steps": [{"ns": s["ns"], "key": s["key"], "out": s["out"]} for s in steps]}])
    res = tlc.run_tlc("Names", cfg="NamesStrict", env={"CASES": path, "RESERVED": reserved_file()[0]}, workers=1)
    chk.add_tlc(res)
    if res.violated:
        tr = res.error_trace()
        print("TLC: rejected;", tr[-1][1].replace("\n", " ") if tr else "")
        chk.violation(rep["signature"], "replayed history still rejected", c)
    else:
        print("TLC: history accepted")
    chk.coverage.update({"evaluations": 1, "distinct_nontrivial": 1, "samples": [c["lookups"]]})
