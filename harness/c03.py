"""C03 -- compiled Fortran stepper computes the same states as the interpreter.

Programs of the 'fortran' profile (TLC-generated) are emitted by the real Fortran generator, compiled
with gfortran together with a generated driver that prints the whole state after every run() call;
the real interpreter is stepped on the same program.  Both traces are validated by TLC against
specs/Stepper.tla in slot mode (a yield overwrites the return slots of its component)."""

import multiprocessing
import random

import numpy as np

from . import fortran, fprofile, gen, progs, stepper, tlc
from .common import NCPU, sample

LEVEL = "translation_validation"
CAP = 12


def alphabet():
    return [c for c in fprofile.alphabet() if "norm_2" not in str(c)]


def time_ids(method):
    return sorted({c["tid"] for ph in method["phases"] for c in ph["calls"] if c["op"] == "yield"})


def pnames(method):
    names = set(stepper.persistent_names(method))
    for ph in method["phases"]:
        for c in ph["calls"]:
            if c["op"] == "yield":
                names.update(["<ret_state>" + c["comp"], "<ret_time>" + c["comp"], "<ret_time_id>" + c["comp"]])
    return sorted(names)


def fortran_trace(method, inputs, ncalls, pn):
    try:
        text, info = fortran.generate(method)
    except Exception as e:
        return [["codegen-exc", type(e).__name__, str(e)[:80]]], ""
    drv = fortran.driver(info, text, inputs, ncalls)
    res = fortran.compile_and_run([("dagrtmod.f90", text), ("driver.f90", drv)])
    if res["compile_rc"] != 0:
        err = [ln for ln in res["compile_out"].split("\n") if "Error" in ln][:2]
        return [["compile-fail", " | ".join(err)[:120]]], text
    steps = fortran.parse_steps(res["stdout"])
    tids = time_ids(method)
    events = []
    for st in steps:
        nxt = info["phases"][st["dagrt_next_phase"][1]] if st.get("dagrt_next_phase", ["n"])[0] == "i" \
            and 0 <= st["dagrt_next_phase"][1] < len(info["phases"]) else "?"
        pers = []
        for n in pn:
            ident = info["fields"].get(n)
            v = st.get(ident, ["n"]) if ident else ["n"]
            if n.startswith("<ret_time_id>") and v[0] == "i":
                v = ["s", tids[v[1]]] if 0 <= v[1] < len(tids) else ["x", str(v[1])]
            pers.append([n, v])
        events.append(["slots", nxt, pers])
    if res["rc"] != 0 or res["stderr"].strip():
        first = res["stderr"].strip().split("\n")[0].strip() if res["stderr"].strip() else "rc=%s" % res["rc"]
        if first in progs.ERROR_KINDS:
            events.append(["raise", first, []])
        else:
            events.append(["runtime-error", first[:80]])
    elif "SHUTDOWN-DONE" not in res["stdout"]:
        events.append(["runtime-error", "driver did not finish"])
    return events, text


def interp_trace(method, inputs, ncalls, pn):
    """The interpreter stepped call by call; yields are folded into return slots."""
    from dagrt.exec_numpy import FailStepException, NumpyInterpreter, TransitionEvent
    code = stepper.build_code(method)
    it = NumpyInterpreter(code, fprofile.FUNCS)
    it.set_up(t_start=inputs["<t>"], dt_start=inputs["<dt>"],
              context={k[len("<state>"):]: np.array(v, dtype=float) if isinstance(v, list) else v
                       for k, v in inputs.items() if k.startswith("<state>")})
    for k, v in inputs.items():
        if k.startswith("<p>"):
            it.context[k] = v
    slots = {}
    events = []
    for _ in range(ncalls):
        try:
            for ev in it.run_single_step():
                if type(ev).__name__ == "StateComputed":
                    slots["<ret_state>" + ev.component_id] = stepper.norm(np.array(ev.state_component, copy=True)
                                                                           if isinstance(ev.state_component, np.ndarray) else ev.state_component)
                    slots["<ret_time>" + ev.component_id] = stepper.norm(ev.t)
                    slots["<ret_time_id>" + ev.component_id] = ["s", ev.time_id]
        except FailStepException:
            pass
        except TransitionEvent as te:
            it.next_phase = te.next_phase
        except Exception as e:
            if type(e) in progs.ERROR_KINDS.values():
                events.append(["raise", type(e).__name__, []])
            else:
                events.append(["exc", type(e).__name__, str(e)[:60]])
            break
        pers = [[n, slots[n] if n in slots else stepper.norm(it.context.get(n))] for n in pn]
        events.append(["slots", it.next_phase, pers])
    return events


def run_case(args):
    from .common import use_repo
    use_repo()
    method, inputs, ncalls = args
    m = stepper.resolve_fresh(method)
    pn = pnames(m)
    tm = stepper.tlc_method(m, pn)
    inp = [[k, ["a", v] if isinstance(v, list) else ["i", v]] for k, v in sorted(inputs.items())]
    ftrace, text = fortran_trace(m, inputs, ncalls, pn)
    try:
        itrace = interp_trace(m, inputs, ncalls, pn)
    except Exception as e:
        itrace = [["setup-exc", type(e).__name__, str(e)[:80]]]
    return {"method": tm, "input": inp, "bound": {"max_steps": ncalls, "t_end": -1}, "cap": CAP, "fault": [0, 0],
            "mode": "slots", "traces": [{"impl": "fortran", "events": ftrace}, {"impl": "interp", "events": itrace}],
            "src": method, "inputs": inputs}


def feature(case):
    text = progs.show_prog([c for ph in case["src"]["phases"] for c in ph["calls"]])
    feats = []
    if " if " in text and "else" in text:
        feats.append("conditional-expression")
    if "!=" in text:
        feats.append("not-equal-comparison")
    if "**" in text:
        feats.append("power")
    if _subscript_of_derived_array(case):
        feats.append("subscript-of-array-assigned-from-whole-array-expression")
    return "+".join(feats) or "-"


def _subscript_of_derived_array(case):
    """Some phase assigns a whole variable (no subscript, no loop) from an expression over an array variable -- not from
    <builtin>array itself -- and subscripts that variable with a constant or variable index later on."""
    def mentions(j, pred):
        if isinstance(j, list):
            return pred(j) or any(mentions(x, pred) for x in j)
        return False
    for ph in case["src"]["phases"]:
        arrays, derived = set(), set()
        for c in ph["calls"]:
            if c.get("op") != "assign":
                continue
            rhs = c["rhs"]
            if mentions([rhs] + list(c.get("sub") or []), lambda j: len(j) == 3 and j[0] == "sub" and j[1][0] == "v" and j[1][1] in derived):
                return True
            if not c.get("sub") and not c.get("loops"):
                if rhs[0] == "call" and rhs[1] == ["v", "<builtin>array"]:
                    arrays.add(c["lhs"])
                elif mentions(rhs, lambda j: len(j) == 2 and j[0] == "v" and j[1] in arrays | derived) and rhs[0] != "sub" \
                        and not (rhs[0] == "call"):
                    derived.add(c["lhs"])
    return False


def run(chk):
    rng = random.Random(chk.seed)
    alpha = alphabet()
    nprog = 160 if chk.quick else 2500
    programs = []
    exh, _ = gen.tlc_programs(alpha, 2, chk=chk, minlen=1, typed=fprofile.INPUTS)
    sim, _ = gen.tlc_programs(alpha, 8, simulate=nprog * 3, seed=chk.seed, chk=chk, minlen=3, typed=fprofile.INPUTS)
    pool = [p for p in sim if len(p) >= 3]
    rng.shuffle(pool)
    programs = rng.sample(exh, min(len(exh), nprog // 4)) + pool[:nprog // 2]
    while len(programs) < nprog:
        programs.append(gen.random_program(rng, alpha, rng.randint(5, 11), typed=fprofile.INPUTS))
    jobs = []
    for calls in [p for p in fprofile.core_shapes() if "norm_2" not in str(p)]:
        # the hand-shaped programs run from every point of the input grid
        for n0 in (0, 1, 3):
            for m0 in (0, 2):
                method = {"phases": [{"name": "p0", "next": "p0", "calls": calls},
                                     {"name": "p1", "next": "p0", "calls": fprofile.P1_CALLS}], "initial": "p0"}
                jobs.append((method, {"<t>": 0, "<dt>": 1, fprofile.Y: [1, 2], fprofile.N: n0, fprofile.M: m0}, 2))
    for calls, nxt in fprofile.transition_family():
        method = {"phases": [{"name": "p0", "next": nxt, "calls": calls},
                             {"name": "p1", "next": "p0", "calls": fprofile.P1_CALLS}], "initial": "p0"}
        jobs.append((method, {"<t>": 0, "<dt>": 1, fprofile.Y: [1, 2], fprofile.N: 0, fprofile.M: 0}, 4))
    for calls in programs:
        method = {"phases": [{"name": "p0", "next": rng.choice(["p0", "p0", "p1"]), "calls": calls},
                             {"name": "p1", "next": "p0", "calls": fprofile.P1_CALLS}], "initial": "p0"}
        inputs = {"<t>": 0, "<dt>": rng.choice([1, 2]), fprofile.Y: [1, 2], fprofile.N: rng.choice([0, 1, 3]),
                  fprofile.M: rng.choice([0, 2])}
        jobs.append((method, inputs, rng.randint(1, 4)))
    chk.stage("generate")
    with multiprocessing.Pool(NCPU) as pool_:
        cases = pool_.map(run_case, jobs, chunksize=2)
    chk.stage("compile_and_run")
    tl = [{k: c[k] for k in ("method", "input", "bound", "cap", "fault", "mode", "traces")} for c in cases]
    out = tlc.judge_batch("Stepper", tl, chunk=200, tags=("BAD", "END"), chk=chk, jobs=8)
    chk.stage("tlc_judge")
    bad = {t[1]: t[2:] for t in out["BAD"]}
    ended = {t[1]: t[2:] for t in out["END"]}
    missing = [k for k in range(len(cases)) if k not in bad and k not in ended]
    if missing:
        raise tlc.MachineryError("Stepper batch: %d cases without verdict" % len(missing))
    for k in sorted(bad):
        impl, pos, exp, got = bad[k]
        c = cases[k]
        tr = [t for t in c["traces"] if t["impl"] == impl][0]["events"]
        ev = tr[pos - 1] if pos - 1 < len(tr) else ["<none>"]
        if ev[0] in ("codegen-exc", "compile-fail", "runtime-error", "exc", "setup-exc"):
            import re
            sig = "C03:%s:%s:%s" % (impl, ev[0], re.sub(r"[0-9]+", "N", re.sub(r"'[^']*'", "'_'", str(ev[1])))[:70])
        else:
            sig = "C03:%s:state-mismatch:%s" % (impl, feature(c))
        # which variables differ?
        text = " | ".join("%s: %s" % (ph["name"], progs.show_prog(ph["calls"])) for ph in c["src"]["phases"])
        chk.violation(sig, "%s: after run() call %d the state should be %s but is %s; program [%s] inputs %s"
                      % (impl, pos, "<reference>", ev, text, c["inputs"]),
                      {"method": c["src"], "inputs": c["inputs"], "ncalls": c["bound"]["max_steps"]})
    chk.coverage.update({
        "programs": len(cases),
        "disagreements_checked": len(bad),
        "evaluations": len(cases),
        "distinct_nontrivial": sum(1 for k, v in ended.items() if v[0] == "accepted"),
        "rule": "programs = ProgGen behaviours of the 'fortran' profile (depth-2 exhaustive sample, simulated depth 8, seeded "
                "5-11 calls; two phases, failures, switches, conditional expressions, all comparisons, powers, arrays, "
                "user-type vectors, a registered rhs function and a two-result function), each generated by the real "
                "Fortran generator, compiled with gfortran and run for 1-4 run() calls from sampled inputs; non-trivial = "
                "trace accepted against the reference",
        "cases_accepted": sum(1 for v in ended.values() if v[0] == "accepted"),
        "cases_out_of_fragment": sum(1 for v in ended.values() if v[0] == "dropped"),
        "compile_failures": sum(1 for c in cases if c["traces"][0]["events"] and c["traces"][0]["events"][0][0] == "compile-fail"),
        "codegen_exceptions": sum(1 for c in cases if c["traces"][0]["events"] and c["traces"][0]["events"][0][0] == "codegen-exc"),
        "traces_validated_against_impl": 2 * len(cases),
        "samples": sample([{"p0": progs.show_prog(c["src"]["phases"][0]["calls"]), "inputs": c["inputs"],
                            "fortran": c["traces"][0]["events"][:1]} for c in cases], 3),
    })
    chk.assumptions += ["exact arithmetic only: integer-valued reals, no LAPACK built-ins, norm_2 excluded",
                        "the driver observes the state through the public state type after each run() call; a failed step "
                        "is not distinguishable from a completed one at that interface"]


def replay(chk, rep):
    c = rep["case"]
    r = run_case((c["method"], c["inputs"], c["ncalls"]))
    for t in r["traces"]:
        print(t["impl"])
        for e in t["events"]:
            print("   ", e)
    tl = {k: r[k] for k in ("method", "input", "bound", "cap", "fault", "mode", "traces")}
    res = tlc.run_tlc("Stepper", cfg="StepperStrict", env={"CASES": tlc.write_cases([tl])}, workers=1)
    chk.add_tlc(res)
    if res.violated:
        tr = res.error_trace()
        print("TLC: rejected;", tr[-1][1] if tr else "")
        chk.violation(rep["signature"], "replayed case still rejected", c)
    else:
        print("TLC: accepted")
    chk.coverage.update({"programs": 1, "disagreements_checked": 0, "evaluations": 1, "distinct_nontrivial": 2,
                         "samples": [c["method"]]})
