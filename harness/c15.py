"""C15 -- generated source text is a pure function of the method description.

Configurations (hash seed x container order x generation history x target) are enumerated; every
configuration is executed in a subprocess on programs of the 'fortran' profile; the emitted text is
recorded line by line and specs/SelfComp.tla requires all runs of one program and target to emit
the same chunks (first differing chunk = counterexample)."""

import itertools
import json
import os
import random
import subprocess
import sys
import zlib

from . import fprofile, gen, progs, stepper, tlc
from .common import NCPU, REPO, VERIF, sample

LEVEL = "exploration"


def build_code(method, perm_seed, as_list):
    """DAGCode for the method with its containers presented in a permuted order."""
    import random as _r
    from dagrt.language import DAGCode, ExecutionPhase
    rng = _r.Random(perm_seed)
    phases = []
    for ph in method["phases"]:
        cb, _ = progs.replay_calls(ph["name"], ph["calls"])
        stmts = list(cb.statements)
        if perm_seed:
            rng.shuffle(stmts)
        phases.append(ExecutionPhase(name=ph["name"], next_phase=ph["next"],
                                     statements=stmts if as_list else frozenset(stmts)))
    if perm_seed:
        rng.shuffle(phases)
    return DAGCode({p.name: p for p in phases}, method["initial"])


def emit(method, target, perm_seed, as_list, code=None):
    try:
        code = code if code is not None else build_code(method, perm_seed, as_list)
        if target == "python":
            from dagrt.codegen.python import CodeGenerator
            return CodeGenerator("Stepper")(code)
        if target == "fortran":
            return fprofile.fortran_generator("dagrtmod")(code)
        if target == "fortran-default-index-vars":
            return fprofile.fortran_generator("dagrtmod", explicit_index_vars=False)(code)
        # interpreter: observable results of two steps
        import numpy as np
        from dagrt.exec_numpy import NumpyInterpreter
        it = NumpyInterpreter(code, fprofile.FUNCS)
        it.set_up(t_start=0.0, dt_start=0.5, context={"y": np.array([1.0, 2.0])})
        it.context["<p>n"] = 1.0
        it.context["<p>m"] = 0.5
        out = []
        for ev in it.run(max_steps=2):
            out.append(repr(ev))
            if len(out) > 20:
                break
        out.append(repr(sorted((k, repr(v)) for k, v in it.context.items())))
        return "\n".join(out)
    except Exception as e:
        return "raised %s" % type(e).__name__


def worker(inp, outp):
    from .common import use_repo
    use_repo()
    with open(inp) as f:
        job = json.load(f)
    methods, rot = job["methods"], job["rotation"]
    order = list(range(len(methods)))
    order = order[rot % len(order):] + order[:rot % len(order)]
    out = []
    for pos, j in enumerate(order):
        m = methods[j]
        for target in ("python", "fortran", "interp") + (("fortran-default-index-vars",) if j < 2 else ()):
            for perm_seed, as_list in job["presentations"]:
                hist = "first-in-process" if pos == 0 and (perm_seed, as_list) == tuple(job["presentations"][0]) else "after-others"
                text = emit(m, target, perm_seed, as_list)
                out.append({"prog": j, "target": target, "cfg": "seed=%s perm=%s list=%s %s" % (
                    os.environ.get("PYTHONHASHSEED"), perm_seed, as_list, hist), "text": text})
            # the same program again on a new generator object
            text = emit(m, target, 0, False)
            out.append({"prog": j, "target": target, "cfg": "seed=%s perm=0 list=False again" % os.environ.get("PYTHONHASHSEED"),
                        "text": text})
        # ONE description object handed to several generator objects in turn (generation must not change it)
        try:
            shared = build_code(m, 0, False)
        except Exception:
            shared = None
        if shared is not None:
            for rnd, target in enumerate(("python", "fortran", "python", "interp", "fortran")):
                out.append({"prog": j, "target": target, "cfg": "seed=%s same description object, use %d" % (
                    os.environ.get("PYTHONHASHSEED"), rnd + 1), "text": emit(m, target, 0, False, code=shared)})
    with open(outp, "w") as f:
        json.dump(out, f)


def run(chk):
    rng = random.Random(chk.seed)
    alpha = fprofile.alphabet()
    nprog = 60 if chk.quick else 300
    programs = []
    tries = 0
    while len(programs) < nprog and tries < 20 * nprog:
        tries += 1
        calls = gen.random_program(rng, alpha, rng.randint(5, 12), typed=fprofile.INPUTS)
        if sum(1 for c in calls if c["op"] in ("assign", "acall")) >= 3:
            programs.append(calls)
    # a hand-shaped program: several user-type temporaries dying at one statement, multi-use
    programs[0] = [alpha[0], alpha[1], alpha[2], fprofile.assign(fprofile.Y, fprofile.S(fprofile.V("w"), fprofile.V("w2"), fprofile.V("k")))]
    programs[1] = [fprofile.assign("a", fprofile.S(fprofile.V(fprofile.N), fprofile.C(1))), fprofile.assign("b", fprofile.S(fprofile.V(fprofile.M), fprofile.C(1))),
                   fprofile.acall(["a", "b"], "<func>g2", [fprofile.V("a"), fprofile.V("b")]), fprofile.assign(fprofile.N, fprofile.S(fprofile.V("a"), fprofile.V("b")))]
    # several user-type temporaries whose last use is inside one loop; built-ins whose Fortran code comes from
    # module-level call templates (matmul, transpose, linear_solve)
    F = fprofile
    programs[2] = [alpha[0], alpha[1], alpha[2],
                   F.assign(F.Y, F.S(F.V(F.Y), F.P(F.V("i"), F.V("k")), F.V("w"), F.V("w2")), loops=[["i", F.C(0), F.C(2)]]),
                   F.yield_(F.V(F.Y))]
    fill = [F.assign("arr", ["call", F.V("<builtin>array"), [F.C(4)], []]),
            F.assign("arr", F.S(F.V("i"), F.V(F.N)), sub=[F.V("i")], loops=[["i", F.C(0), F.C(4)]])]
    programs[3] = fill + [F.acall(["mm"], "<builtin>matmul", [F.V("arr"), F.V("arr"), F.C(2), F.C(2)]),
                          F.acall(["tt"], "<builtin>transpose", [F.V("mm"), F.C(2)]),
                          F.assign(F.M, F.S(["sub", F.V("mm"), [F.C(1)]], ["sub", F.V("tt"), [F.C(2)]]))]
    programs[4] = fill + [F.assign("rhsv", ["call", F.V("<builtin>array"), [F.C(2)], []]),
                          F.assign("rhsv", F.S(F.V("i"), F.C(1)), sub=[F.V("i")], loops=[["i", F.C(0), F.C(2)]]),
                          F.assign("arr", F.S(["sub", F.V("arr"), [F.C(0)]], F.C(5)), sub=[F.C(0)]),
                          F.acall(["sol"], "<builtin>linear_solve", [F.V("arr"), F.V("rhsv"), F.C(2), F.C(1)]),
                          F.assign(F.M, ["sub", F.V("sol"), [F.C(0)]])]
    methods = [{"phases": [{"name": "p0", "next": "p0", "calls": c}, {"name": "p1", "next": "p0", "calls": fprofile.P1_CALLS}],
                "initial": "p0"} for c in programs]
    # methods over a different vocabulary of persistent names and phases (what an earlier generator object in
    # the same process may have seen)
    A_, S_, V_, C_ = fprofile.assign, fprofile.S, fprofile.V, fprofile.C
    other = [[A_("<state>z", C_(1)), A_("<state>aux", S_(V_("<state>z"), C_(2))), A_("<p>k_prev", V_("<state>aux")),
              fprofile.yield_(V_("<state>z"), comp="z")],
             [A_("<p>zz", C_(3)), A_("<state>b2", S_(V_("<p>zz"), V_("<t>"))), A_("<state>a1", V_("<state>b2"))]]
    for k, c in enumerate(other):
        methods.insert(3 + 7 * k, {"phases": [{"name": "main", "next": "main", "calls": c}], "initial": "main"})
        programs.insert(3 + 7 * k, c)
    seeds = [0, 1, 2, 3, 4, 5] if chk.quick else list(range(12))
    presentations = [[0, False], [1, True], [2, False]] if chk.quick else [[0, False], [1, True], [2, False], [3, True], [4, False]]
    procs = []
    for k, sd in enumerate(seeds):
        inp = tlc.write_cases({"methods": methods, "rotation": 5 * k, "presentations": presentations}, prefix="c15in_")
        outp = inp + ".out"
        tlc._scratch.append(outp)
        env = dict(os.environ, PYTHONHASHSEED=str(sd), DAGRT_REPO=REPO)
        p = subprocess.Popen([sys.executable, "-W", "ignore", "-c",
                              "import sys; sys.path.insert(0, %r); from harness import c15; c15.worker(%r, %r)"
                              % (VERIF, inp, outp)], env=env, cwd=VERIF)
        procs.append((p, outp))
    runs = []
    for p, outp in procs:
        if p.wait() != 0:
            raise tlc.MachineryError("C15 worker failed")
        with open(outp) as f:
            runs.extend(json.load(f))
    chk.stage("emit")
    groups = {}
    for r in runs:
        groups.setdefault((r["prog"], r["target"]), []).append(r)
    keys = sorted(groups)
    cases = []
    for key in keys:
        cases.append({"runs": [{"cfg": r["cfg"], "out": ["%08x" % zlib.crc32(ln.encode()) for ln in r["text"].split("\n")]}
                               for r in groups[key]]})
    out = tlc.judge_batch("SelfComp", cases, chunk=40, chk=chk, jobs=8)
    chk.stage("tlc_judge")
    for t in out["BAD"]:
        key = keys[t[1]]
        pos, which = t[2], t[3]
        rs = groups[key]
        l0 = rs[0]["text"].split("\n")
        l1 = rs[which - 1]["text"].split("\n")
        a = l0[pos - 1] if pos - 1 < len(l0) else "<end>"
        b = l1[pos - 1] if pos - 1 < len(l1) else "<end>"
        import re
        what = "release-call-order" if "dagrt_deinit" in a and "dagrt_deinit" in b else (
            "array-index-variable-from-global-counter" if re.sub(r"drtf_i\d+(_\d+)?", "I", a) == re.sub(r"drtf_i\d+(_\d+)?", "I", b)
            else ("temporary-name" if any(x in a + b for x in ("drtf_", "lploc_", "local", "temp_")) else "other"))
        chk.violation("C15:%s:%s" % (key[1], what),
                      "%s output for [%s] differs at line %d: %r (%s) vs %r (%s)" % (
                          key[1], progs.show_prog(programs[key[0]]), pos, a.strip(), rs[0]["cfg"], b.strip(), rs[which - 1]["cfg"]),
                      {"calls": programs[key[0]], "target": key[1]})
    nlines = sum(len(c["runs"][0]["out"]) for c in cases)
    chk.coverage.update({
        "evaluations": len(runs),
        "distinct_nontrivial": len({(r["prog"], r["target"], r["cfg"]) for r in runs if not r["text"].startswith("raised")}),
        "rule": "configuration = hash seed %s x presentation (statement containers as frozenset or permuted list, phase "
                "dict order) %s x history (first generation in a process / after other programs / same program again) x "
                "target (python, fortran, interpreter results); %d programs of the 'fortran' profile; distinct = distinct "
                "(program, target, configuration) that generated text" % (seeds, presentations, len(programs)),
        "programs": len(programs), "groups_compared": len(cases), "lines_per_group_total": nlines,
        "generator_errors": sum(1 for r in runs if r["text"].startswith("raised")),
        "traces_validated_against_impl": len(runs),
        "samples": sample([{"program": progs.show_prog(programs[k[0]]), "target": k[1], "runs": len(groups[k]),
                            "lines": len(groups[k][0]["text"].split(chr(10)))} for k in keys], 4),
    })
    chk.assumptions += ["hash seeds sample set iteration orders; the specification contributes the lock-step comparison "
                        "(self-composition), it has no model of the generators"]


def replay(chk, rep):
    c = rep["case"]
    m = {"phases": [{"name": "p0", "next": "p0", "calls": c["calls"]}, {"name": "p1", "next": "p0", "calls": fprofile.P1_CALLS}],
         "initial": "p0"}
    runs = []
    for sd in (0, 1, 2, 3, 4, 5):
        inp = tlc.write_cases({"methods": [m], "rotation": 0, "presentations": [[0, False], [1, True], [2, False]]}, prefix="c15in_")
        outp = inp + ".out"
        tlc._scratch.append(outp)
        env = dict(os.environ, PYTHONHASHSEED=str(sd), DAGRT_REPO=REPO)
        subprocess.run([sys.executable, "-W", "ignore", "-c",
                        "import sys; sys.path.insert(0, %r); from harness import c15; c15.worker(%r, %r)" % (VERIF, inp, outp)],
                       env=env, cwd=VERIF, check=True)
        with open(outp) as f:
            runs.extend(r for r in json.load(f) if r["target"] == c["target"])
    texts = {r["text"] for r in runs}
    print("%d runs, %d distinct outputs" % (len(runs), len(texts)))
    case = {"runs": [{"cfg": r["cfg"], "out": ["%08x" % zlib.crc32(ln.encode()) for ln in r["text"].split("\n")]} for r in runs]}
    res = tlc.run_tlc("SelfComp", cfg="SelfCompStrict", env={"CASES": tlc.write_cases([case])}, workers=1)
    chk.add_tlc(res)
    if res.violated:
        print("TLC: ObservationalDeterminism violated")
        chk.violation(rep["signature"], "replayed: outputs still differ", c)
    else:
        print("TLC: all runs emit the same chunks")
    chk.coverage.update({"evaluations": len(runs), "distinct_nontrivial": len(runs), "rule": "replay",
                         "samples": [progs.show_prog(c["calls"])]})
