"""Validate MANIFEST.json and evidence files against the given schemas (run with python3-vt)."""
import glob
import json
import sys

import jsonschema


def main():
    m = json.load(open('/verif/MANIFEST.json'))
    jsonschema.validate(m, json.load(open('/root/.vp/MANIFEST.schema.json')))
    print("manifest ok: %d checks, %d n/a" % (len(m["checks"]), len(m.get("not_applicable", []))))
    s = json.load(open('/root/.vp/EVIDENCE.schema.json'))
    for f in sorted(glob.glob('/verif/evidence/*.json')):
        e = json.load(open(f))
        jsonschema.validate(e, s)
        print("evidence ok:", f, e["tier"], e["level"], "wall", e["wall_s"])


if __name__ == "__main__":
    main()
