"""C14 -- kind inference is order-independent; kind unification is a partial join.

(universe) the outcome table of the real dagrt.data.unify over the kind universe is recorded and
judged by TLC against the laws in specs/Kinds.tla (all pairs and triples);
(order) the real SymbolKindFinder is run on every presentation (statement order within phases,
phase order, hash seed) of each program; specs/SelfComp.tla requires all outcomes of one program
to be equal."""

import itertools
import json
import multiprocessing
import os
import random
import subprocess
import sys

from . import exprs, tlc
from .common import NCPU, REPO, VERIF, sample
from .gen import C, CMP, S, V

LEVEL = "model_checking"

UNIV = ["None", "Boolean", "Integer", "Scalar_r", "Scalar_c", "Array_r", "Array_c",
        "UserType_u", "UserType_v"]


def kind_obj(name):
    from dagrt import data
    if name == "None":
        return None
    if name == "Boolean":
        return data.Boolean()
    if name == "Integer":
        return data.Integer()
    cls, arg = name.split("_")
    if cls == "Scalar":
        return data.Scalar(arg == "r")
    if cls == "Array":
        return data.Array(arg == "r")
    return data.UserType(arg)


def kind_name(k):
    from dagrt import data
    if k is None:
        return "None"
    if isinstance(k, data.Boolean):
        return "Boolean"
    if isinstance(k, data.Integer):
        return "Integer"
    if isinstance(k, data.Scalar):
        return "Scalar_r" if k.is_real_valued else "Scalar_c"
    if isinstance(k, data.Array):
        return "Array_r" if k.is_real_valued else "Array_c"
    if isinstance(k, data.UserType):
        return "UserType_%s" % k.identifier
    return "?%r" % (k,)


def record_unify_table():
    from dagrt.data import unify
    table, errs = [], {}
    for i, a in enumerate(UNIV):
        row = []
        for j, b in enumerate(UNIV):
            try:
                r = kind_name(unify(kind_obj(a), kind_obj(b)))
                row.append(UNIV.index(r) + 1 if r in UNIV else 0)
                if r not in UNIV:
                    errs["%s,%s" % (a, b)] = "result outside universe: " + r
            except Exception as e:
                row.append(0)
                errs["%s,%s" % (a, b)] = type(e).__name__
        table.append(row)
    return table, errs


# -- statement catalogue of the order part --------------------------------------------------

def catalogue():
    from .gen import acall, assign
    BA = "<builtin>array"
    return [
        assign("x", C(1)),
        assign("x", ["cx", 0, 1]),
        assign("x", V("y")),
        assign("y", S(V("x"), V("z"))),
        assign("z", V("<state>u")),
        acall(["<state>u"], "<func>f", [V("<t>"), V("<state>u")]),
        assign("x", CMP("<", V("y"), C(1))),
        assign("y", ["call", V(BA), [C(3)], []]),
        assign("x", ["sub", V("y"), [C(0)]]),
        acall(["w"], "<builtin>norm_2", [V("z")]),
        assign("x", ["prod", [V("<state>u"), C(2)]]),
        acall(["z"], "<func>h", [V("<t>"), V("z")]),
        assign("<p>a", V("x")),
        assign("x", S(V("<p>a"), ["cx", 0, 1])),
        assign("y", V("i"), sub=[V("i")], loops=[["i", C(0), C(3)]]),
        assign("x", ["call", V("<builtin>len"), [V("y")], []]),
        assign("w", V("i"), loops=[["i", C(0), C(3)]]),
        assign("x", ["pow", V("y"), C(2)]),
        assign("y", V("x")),                      # copy chains: widening must travel along them
        assign("z", V("y")),
        assign("w", V("z")),
        # built-ins whose declared result kind depends on the kinds of their arguments (possibly not yet known)
        acall(["w"], "<builtin>dot_product", [V("y"), V("y")]),
        assign("x", ["call", V("<builtin>dot_product"), [V("y"), V("z")], []]),
        acall(["w"], "<builtin>matmul", [V("y"), V("y"), C(1), C(1)]),
        acall(["w"], "<builtin>linear_solve", [V("y"), V("y"), C(1), C(1)]),
        acall(["w"], "<builtin>elementwise_abs", [V("y")]),
        assign("x", ["call", V("<builtin>norm_inf"), [V("y")], []]),
        assign("y", ["prod", [V("y"), ["cx", 0, 1]]]),            # makes the array complex
    ]


def make_stmt(call, sid):
    from dagrt.language import Assign, AssignFunctionCall
    if call["op"] == "assign":
        sub = tuple(exprs.from_json(s) for s in call["sub"])
        loops = [(i, exprs.from_json(lo), exprs.from_json(hi)) for i, lo, hi in call["loops"]]
        return Assign(id=sid, assignee=call["lhs"], assignee_subscript=sub,
                      expression=exprs.from_json(call["rhs"]), loops=loops)
    return AssignFunctionCall(id=sid, assignees=tuple(call["lhs"]), function_id=call["f"],
                              parameters=tuple(exprs.from_json(a) for a in call["args"]),
                              kw_parameters={k: exprs.from_json(v) for k, v in call["kw"]})


def registry():
    from dagrt.function_registry import base_function_registry, register_ode_rhs
    freg = register_ode_rhs(base_function_registry, "u", identifier="<func>f")
    freg = register_ode_rhs(freg, "v", identifier="<func>h", input_type_ids=("u",))
    return freg


def infer(cat, pres):
    """pres = [(phase_name, [catalogue indices in presentation order]), ...] -> chunks."""
    import contextlib
    import io
    from dagrt.data import SymbolKindFinder
    names = [n for n, _ in pres]
    # statement ids are unique within a phase only: the r-th smallest catalogue index of EVERY phase is called s<r>
    phases = [[make_stmt(cat[k], "s%d" % sorted(idxs).index(k)) for k in idxs] for n, idxs in pres]
    try:
        with contextlib.redirect_stdout(io.StringIO()):
            tbl = SymbolKindFinder(registry())(names, phases)
        out = ["global %s: %s" % (k, kind_name(v)) for k, v in sorted(tbl.global_table.items())]
        for ph in sorted(tbl.per_phase_table):
            out += ["%s %s: %s" % (ph, k, kind_name(v)) for k, v in sorted(tbl.per_phase_table[ph].items())]
        return out
    except Exception as e:
        return ["raised"]          # the property does not speak about the exception class


def presentations_of(prog, rng, limit):
    """prog = {"P": [idx...], "Q": [idx...]}: all orders within phases x both phase orders."""
    P, Q = prog["P"], prog["Q"]
    pres = []
    for pp in itertools.permutations(P):
        for qq in itertools.permutations(Q):
            if Q:
                pres.append([("P", list(pp)), ("Q", list(qq))])
                pres.append([("Q", list(qq)), ("P", list(pp))])
            else:
                pres.append([("P", list(pp))])
    if len(pres) > limit:
        pres = [pres[0]] + rng.sample(pres[1:], limit - 1)
    return pres


def _run_prog(args):
    from .common import use_repo
    use_repo()
    prog, pres = args
    cat = catalogue()
    return [{"cfg": json.dumps(p), "out": infer(cat, p)} for p in pres]


def other_seed(jobs, seed):
    inp = tlc.write_cases(jobs, prefix="c14in_")
    outp = inp + ".out"
    tlc._scratch.append(outp)
    env = dict(os.environ, PYTHONHASHSEED=str(seed), DAGRT_REPO=REPO)
    subprocess.run([sys.executable, "-c",
                    "import sys; sys.path.insert(0, %r); from harness import c14; c14.worker(%r, %r)"
                    % (VERIF, inp, outp)], check=True, env=env, cwd=VERIF)
    with open(outp) as f:
        return json.load(f)


def worker(inp, outp):
    with open(inp) as f:
        jobs = json.load(f)
    with multiprocessing.Pool(NCPU) as pool:
        out = pool.map(_run_prog, jobs, chunksize=50)
    with open(outp, "w") as f:
        json.dump(out, f)


def conflicting(cat, prog):
    """Structural predicate for signatures: does one variable receive kinds from several statements?"""
    writers = {}
    for k in prog["P"] + prog["Q"]:
        c = cat[k]
        lhss = [c["lhs"]] if c["op"] == "assign" and not c["sub"] else (c["lhs"] if c["op"] == "acall" else [])
        for v in lhss:
            writers.setdefault(v, []).append(k)
    return sorted(v for v, w in writers.items() if len(w) > 1)


def run(chk):
    rng = random.Random(chk.seed)
    # ---- universe part -----------------------------------------------------------------
    table, errs = record_unify_table()
    data = {"univ": UNIV, "table": table, "integer_absorbed": True, "conflict_raises": True}
    path = tlc.write_cases(data)
    res = tlc.run_tlc("Kinds", env={"CASES": path}, workers=2)
    chk.add_tlc(res)
    drift = res.tagged("DRIFT")
    seen = set()
    for t in res.tagged("BAD"):
        clause, args = t[2], list(t[3:])
        if clause == "Commutative":
            args = sorted(args)
        if clause in ("Associative", "UpdateConfluent"):
            args = sorted(args)
        key = (clause, tuple(args))
        if key in seen:
            continue
        seen.add(key)
        sig = "C14:%s:%s" % (clause, ",".join(args))
        chk.violation(sig, "unify law %s fails for kinds %s (errors: %s)" % (
            clause, args, {k: v for k, v in errs.items() if set(k.split(",")) <= set(args)}),
            {"part": "universe", "clause": clause, "kinds": args})
    chk.stage("universe")
    # ---- order part --------------------------------------------------------------------
    cat = catalogue()
    n = len(cat)
    maxk = 4 if chk.quick else 5
    progs_ = []
    for k in range(2, maxk + 1):
        for comb in itertools.combinations(range(n), k):
            splits = [()]
            if k <= 3:
                splits = [q for r in range(0, k) for q in itertools.combinations(comb, r)]
            for q in splits:
                progs_.append({"P": [i for i in comb if i not in q], "Q": list(q)})
    if chk.quick:
        one = [p for p in progs_ if not p["Q"]]
        small = [p for p in one if len(p["P"]) <= 3]
        four = [p for p in one if len(p["P"]) == 4]
        progs_ = small + rng.sample(four, min(len(four), 7000)) + rng.sample([p for p in progs_ if p["Q"]], 2000)
    else:
        big = [p for p in progs_ if len(p["P"]) == 5]
        progs_ = [p for p in progs_ if len(p["P"]) + len(p["Q"]) < 5] + rng.sample(big, min(len(big), 6000))
    jobs = [(p, presentations_of(p, rng, 24 if len(p["P"]) + len(p["Q"]) <= 4 else 40)) for p in progs_]
    with multiprocessing.Pool(NCPU) as pool:
        runs = pool.map(_run_prog, jobs, chunksize=50)
    seeds = [3] if chk.quick else [3, 4, 5]
    for sd in seeds:
        for r, extra in zip(runs, other_seed([(p, pr[:3]) for p, pr in jobs], sd)):
            for e in extra:
                e["cfg"] = "seed%d %s" % (sd, e["cfg"])
            r.extend(extra)
    chk.stage("infer")
    cases = [{"runs": r} for r in runs]
    out = tlc.judge_batch("SelfComp", cases, chunk=1500, chk=chk)
    bad = {}
    for t in out["BAD"]:
        bad[t[1]] = (t[2], t[3])
    for k in sorted(bad):
        prog = progs_[k]
        pos, which = bad[k]
        r = runs[k]
        conf = conflicting(cat, prog)
        from . import progs as progs_mod
        text = "; ".join(progs_mod.show_call(cat[i]) for i in prog["P"] + prog["Q"])
        first = r[0]["out"][pos - 1] if pos - 1 < len(r[0]["out"]) else "<end>"
        other = r[which - 1]["out"][pos - 1] if pos - 1 < len(r[which - 1]["out"]) else "<end>"
        kinds = sorted({first.split(": ")[-1], other.split(": ")[-1]})
        sig = "C14:OrderIndependent:%s:%s" % (
            "one-variable-gets-kinds-whose-unification-fails" if conf else "other", ",".join(kinds))
        chk.violation(sig, "kind table depends on presentation order for [%s]: %r vs %r (%s vs %s)"
                      % (text, first, other, r[0]["cfg"], r[which - 1]["cfg"]),
                      {"part": "order", "prog": prog})
    chk.stage("tlc_judge")
    n_runs = sum(len(r) for r in runs)
    chk.coverage.update({
        "evaluations": n_runs + 81,
        "distinct_nontrivial": sum(1 for r in runs if len(r) > 1 and not r[0]["out"][0].startswith("raised")),
        "rule": "universe: all 9x9 unify calls recorded, all 729 triples judged; order: programs = all "
                "subsets of 2..%d statements of an %d-statement catalogue, every assignment of the "
                "statements to two phases (subsets of <= 3), each presented in every (or %d sampled) "
                "order(s) of statements and phases and under other hash seeds; non-trivial = inference "
                "succeeds and more than one presentation" % (maxk, n, 24),
        "exhaustive": True,
        "exhaustive_scope": "kind universe pairs/triples; all catalogue subsets up to size %d" % maxk,
        "unify_errors": errs, "unify_model_drift": [list(d) for d in drift],
        "impl_model_conformant": not drift,
        "programs": len(progs_), "presentations": n_runs, "hash_seeds": [0] + seeds,
        "traces_validated_against_impl": n_runs + 81,
        "samples": sample([{"prog": [cat[i] for i in p["P"] + p["Q"]][:2], "table": r[0]["out"]}
                           for p, r in zip(progs_, runs)], 3),
    })
    chk.assumptions += ["kind universe = None, Boolean, Integer, real/complex Scalar, real/complex Array, "
                        "two user types", "hash seeds sample set iteration orders"]


def replay(chk, rep):
    c = rep["case"]
    if c["part"] == "universe":
        table, errs = record_unify_table()
        print("unify errors:", errs)
        path = tlc.write_cases({"univ": UNIV, "table": table, "integer_absorbed": True, "conflict_raises": True})
        res = tlc.run_tlc("Kinds", env={"CASES": path}, workers=1)
        hit = [t for t in res.tagged("BAD") if t[2] == c["clause"] and sorted(t[3:]) == sorted(c["kinds"])]
        print("TLC:", hit or "law holds for these kinds")
        if hit:
            chk.violation(rep["signature"], "replayed: law still fails", c)
    else:
        rng = random.Random(0)
        pres = presentations_of(c["prog"], rng, 48)
        runs = _run_prog((c["prog"], pres))
        for r in runs:
            print(r["cfg"], "->", r["out"])
        path = tlc.write_cases([{"runs": runs}])
        res = tlc.run_tlc("SelfComp", cfg="SelfCompStrict", env={"CASES": path}, workers=1)
        if res.violated:
            print("TLC: ObservationalDeterminism violated")
            chk.violation(rep["signature"], "replayed: table still depends on order", c)
        else:
            print("TLC: all presentations agree")
    chk.coverage.update({"evaluations": 1, "distinct_nontrivial": 1, "samples": [c]})
