"""C12 -- generated Fortran never leaks, double-frees or uses freed user-type storage.

For programs of the 'fortran' profile with user-type temporaries, moves, guards and early exits the
module emitted by the real generator is parsed into its memory-management skeleton
(harness/fextract.py); specs/RefCount.tla gives the skeleton its heap semantics and TLC explores
initialize, up to three run calls and shutdown under every valuation of the branch conditions.
A violation found by TLC is reported only when the compiled module, run under AddressSanitizer /
LeakSanitizer over a grid of guard inputs, exhibits an error of the predicted class; sanitizer
reports the model did not predict are a failure of the machinery, not a verdict."""

import multiprocessing
import os
import random
import re

import json

from . import common, fextract, fortran, fprofile, gen, progs, stepper, tlc
from .common import NCPU, sample

LEVEL = "model_checking"
ASAN = ["-fsanitize=address", "-fno-omit-frame-pointer"]


def tlc_case(text):
    p = fextract.parse_module(text)
    allvec, allrc = set(p["vec"]), set(p["rc"])
    for _s, loc in p["locals"].items():
        allvec |= set(loc["vec"])
        allrc |= set(loc["rc"])
    phaselits, assoclits, flags = {}, {}, {}
    for s, fl in p["flags"].items():
        flags[s] = [f for f in fl if not f.startswith("$")]
    for s, ins in p["subs"].items():
        for i in ins:
            if i[0] == "br":
                for n, _pol in i[2]:
                    if n.startswith("$phase="):
                        phaselits[n] = n[len("$phase="):]
                    if n.startswith("$assoc="):
                        assoclits[n] = n[len("$assoc="):]
    # condition variables computed by the code (not the synthetic "?n:loop-entered" conditions): inside a loop body they
    # may depend on the loop variable
    loopflags = sorted({f for fl in flags.values() for f in fl if not f.startswith("?")}) or ["$none"]
    return {"subs": p["subs"], "allvec": sorted(allvec), "allrc": sorted(allrc), "locals": p["locals"],
            "flags": flags, "phaselits": phaselits or {"$none": "-"}, "assoclits": assoclits or {"$none": "-"},
            "loopflags": loopflags, "warnings": p["warnings"]}


def driver_grid(info, text, module="dagrtmod"):
    """Driver that reads the number of run() calls and, per call, the guard inputs to install."""
    fk = fortran.kinds_of_fields(text)
    L = []
    A = L.append
    A("program verif_memdriver")
    A("  use %s, only: dagrt_state_type, vinit => initialize, vrun => run, vshutdown => shutdown" % module)
    A("  implicit none")
    # the state object lives on the heap: its memory is NOT zero-filled (the sanitizer's allocator fills fresh blocks with
    # a pattern), so a pointer component that initialize forgets to nullify is really undefined
    A("  type(dagrt_state_type), pointer :: dagrt_state")
    A("  type(dagrt_state_type), pointer :: dagrt_state_ptr")
    A("  integer :: istep, nruns")
    A("  real*8 :: nn(8), mm(8)")
    A("  real*8, dimension(2) :: y0")
    A("  allocate(dagrt_state)")
    A("  dagrt_state_ptr => dagrt_state")
    A("  y0(1) = 1.0d0")
    A("  y0(2) = 2.0d0")
    A("  read(*,*) nruns")
    A("  do istep = 1, nruns")
    A("    read(*,*) nn(istep), mm(istep)")
    A("  end do")
    args = ["dagrt_state=dagrt_state_ptr"]
    for key, ident in sorted(info["fields"].items()):
        if ident not in fk:
            continue
        if key == fprofile.Y:
            args.append("%s=y0" % ident)
        elif key in ("<t>",):
            args.append("%s=0.0d0" % ident)
        elif key in ("<dt>",):
            args.append("%s=1.0d0" % ident)
        elif key in (fprofile.N, fprofile.M):
            args.append("%s=0.0d0" % ident)
    A("  call vinit(%s)" % ", &\n    ".join(args))
    A("  do istep = 1, nruns")
    for key, arr in ((fprofile.N, "nn"), (fprofile.M, "mm")):
        ident = info["fields"].get(key)
        if ident in fk:
            A("    dagrt_state%%%s = %s(istep)" % (ident, arr))
    A("    call vrun(dagrt_state=dagrt_state_ptr)")
    A("  end do")
    A("  call vshutdown(dagrt_state=dagrt_state_ptr)")
    A("  deallocate(dagrt_state)")
    A("  write(*,'(A)') 'SHUTDOWN-DONE'")
    A("end program")
    return "\n".join(L) + "\n"


def instrument(text):
    """Insert a marker (write statement) after every allocation check, release and pointer assignment of the
    generated module -- in the generated text, never in the generator."""
    out = []
    stmt = ""
    in_sub = False
    for ln in text.split("\n"):
        out.append(ln)
        s = ln.strip()
        if s.startswith("!") or not s:
            continue
        m = re.match(r"subroutine (\w+)", s)
        if m:
            in_sub = not (m.group(1).startswith("dagrt_alloc_check_") or m.group(1).startswith("dagrt_deinit_"))
        if s.startswith("end subroutine"):
            in_sub = False
        if s.endswith("&"):
            stmt += s[:-1].strip() + " "
            continue
        stmt += s
        full, stmt = stmt, ""
        if not in_sub:
            continue
        ind = ln[:len(ln) - len(ln.lstrip())]
        m = re.match(r"call dagrt_alloc_check_\w+\((.*)\)$", full)
        if m:
            out.append("%swrite(*,'(A)') 'MEM alloc %s'" % (ind, [x.strip() for x in m.group(1).split(",")][-2]))
            continue
        m = re.match(r"call dagrt_deinit_\w+\((.*)\)$", full)
        if m:
            out.append("%swrite(*,'(A)') 'MEM deinit %s'" % (ind, [x.strip() for x in m.group(1).split(",")][-2]))
            continue
        m = re.match(r"([\w%]+) => ([\w%]+)$", full)
        if m:
            out.append("%swrite(*,'(A)') 'MEM passign %s %s'" % (ind, m.group(1), m.group(2)))
    return "\n".join(out)


def marker_traces(method, seqs):
    """Compile the marker-instrumented module once and run the input sequences; returns [(nruns, log, clean)]."""
    import shutil
    import subprocess
    import tempfile
    text, info = fortran.generate(method)
    drv = driver_grid(info, text)
    d = tempfile.mkdtemp(prefix="verif_mark_")
    out = []
    try:
        for n, t in (("dagrtmod.f90", instrument(text)), ("driver.f90", drv)):
            with open(os.path.join(d, n), "w") as f:
                f.write(t)
        p = subprocess.run([fortran.FC, "-g", "-O0", "-ffree-line-length-none"] + ASAN + ["-o", "prog", "dagrtmod.f90", "driver.f90"],
                           cwd=d, stdout=subprocess.PIPE, stderr=subprocess.STDOUT, text=True, timeout=180)
        if p.returncode != 0:
            raise tlc.MachineryError("instrumented module does not compile: %s" % p.stdout[-300:])
        env = dict(os.environ, ASAN_OPTIONS="detect_leaks=1:exitcode=23")
        for seq in seqs:
            inp = "%d\n" % len(seq) + "".join("%d %d\n" % c for c in seq)
            r = subprocess.run([os.path.join(d, "prog")], input=inp, cwd=d, stdout=subprocess.PIPE, stderr=subprocess.PIPE,
                               text=True, timeout=60, env=env)
            log = []
            for ln in r.stdout.split("\n"):
                if ln.startswith("MEM "):
                    parts = ln.split()
                    log.append([parts[1], parts[2], parts[3] if len(parts) > 3 else ""])
            out.append((len(seq), log, not classify(r.stderr) and "SHUTDOWN-DONE" in r.stdout))
        return out
    finally:
        shutil.rmtree(d, ignore_errors=True)


def trace_cases(args):
    from .common import use_repo
    use_repo()
    method, seqs = args
    m = stepper.resolve_fresh(method)
    text, _info = fortran.generate(m)
    base = tlc_case(text)
    keys = ("subs", "allvec", "allrc", "locals", "flags", "phaselits", "assoclits", "loopflags")
    out = []
    for nruns, log, clean in marker_traces(m, seqs):
        c = {k: base[k] for k in keys}
        c.update(log=log, nruns=nruns, clean=clean)
        out.append(c)
    return out


def classify(stderr):
    out = set()
    if "LeakSanitizer: detected memory leaks" in stderr:
        out.add("NoLeakAtShutdown")
    if "attempting double-free" in stderr or "Attempt to DEALLOCATE unallocated" in stderr:
        out.add("FreedOnce")
    if "heap-use-after-free" in stderr or "SEGV" in stderr or "Segmentation fault" in stderr:
        out.add("NoUseOfFreedOrNull")
    if "leaked reference" in stderr:
        out.add("NoLeakAtShutdown")
    if "AddressSanitizer" in stderr and not out:
        out.add("other-sanitizer-report")
    return out


def run_grid(method, maxruns=3):
    """Compile once with the sanitizer, run the grid.  Returns {class: example input}."""
    import itertools
    import subprocess
    import tempfile
    import shutil
    text, info = fortran.generate(method)
    drv = driver_grid(info, text)
    d = tempfile.mkdtemp(prefix="verif_asan_")
    seen = {}
    nrun = 0
    try:
        for n, t in (("dagrtmod.f90", text), ("driver.f90", drv)):
            with open(os.path.join(d, n), "w") as f:
                f.write(t)
        p = subprocess.run([fortran.FC, "-g", "-O0", "-ffree-line-length-none"] + ASAN + ["-o", "prog", "dagrtmod.f90", "driver.f90"],
                           cwd=d, stdout=subprocess.PIPE, stderr=subprocess.STDOUT, text=True, timeout=180)
        if p.returncode != 0:
            return {"compile-fail": p.stdout[-400:]}, 0
        combos = [(n, m) for n in (0, 1, 3) for m in (0, 2)]
        env = dict(os.environ, ASAN_OPTIONS="detect_leaks=1:abort_on_error=0:exitcode=23:allocator_may_return_null=1")
        for k in range(1, maxruns + 1):
            seqs = list(itertools.product(combos, repeat=k))
            if len(seqs) > 40:
                rng = random.Random(7)
                seqs = rng.sample(seqs, 40)
            for seq in seqs:
                inp = "%d\n" % k + "".join("%d %d\n" % c for c in seq)
                r = subprocess.run([os.path.join(d, "prog")], input=inp, cwd=d, stdout=subprocess.PIPE, stderr=subprocess.PIPE,
                                   text=True, timeout=60, env=env)
                nrun += 1
                for c in classify(r.stderr):
                    lines = [ln for ln in r.stderr.split("\n") if "ERROR" in ln or "SUMMARY" in ln or "leaked" in ln]
                    seen.setdefault(c, {"input": inp.split("\n")[:-1], "report": (lines or [""])[0].strip()[:160]})
        return seen, nrun
    finally:
        shutil.rmtree(d, ignore_errors=True)


def prepare(args):
    from .common import use_repo
    use_repo()
    method = args
    try:
        text, info = fortran.generate(stepper.resolve_fresh(method))
    except Exception as e:
        return {"err": "codegen:" + type(e).__name__, "method": method}
    case = tlc_case(text)
    case["method"] = method
    return case


def confirm(args):
    from .common import use_repo
    use_repo()
    method = args
    try:
        return run_grid(stepper.resolve_fresh(method))
    except Exception as e:
        return {"machinery": "%s: %s" % (type(e).__name__, str(e)[:100])}, 0


# ---- user types with structure: the emitted per-type storage routines (specs/TypeRoutines.tla) ------------------

def type_catalogue():
    import dagrt.codegen.fortran as f
    R = f.BuiltinType("real*8")
    PA = lambda n: f.PointerType(f.ArrayType((n,), R))          # noqa: E731
    return {
        "array": dict(pre="", ut=f.ArrayType((2,), R, index_vars="iy"), rhs="\n${result} = -2*${y}\n", tname=None,
                      init="y0 = 1\n", fini="", decl="real*8, dimension(2) :: y0"),
        "struct(real, ptr array)": dict(
            pre="\ntype ytype\n real*8 n\n real*8, pointer :: v(:)\nend type\n",
            ut=f.StructureType("ytype", (("n", R), ("v", PA(4)))),
            rhs="\n${result}%n = -2*${y}%n\n${result}%v = -2*${y}%v\n", tname="ytype",
            init="allocate(y0%v(4))\ny0%v = 1\ny0%n = 3\n", fini="deallocate(y0%v)\n", paths=[["y"], ["y", "v"]]),
        "struct(ptr array, ptr array)": dict(
            pre="\ntype ytype\n real*8, pointer :: v(:)\n real*8, pointer :: w(:)\nend type\n",
            ut=f.StructureType("ytype", (("v", PA(4)), ("w", PA(3)))),
            rhs="\n${result}%v = -2*${y}%v\n${result}%w = 3*${y}%w\n", tname="ytype",
            init="allocate(y0%v(4))\nallocate(y0%w(3))\ny0%v = 1\ny0%w = 2\n", fini="deallocate(y0%v)\ndeallocate(y0%w)\n",
            paths=[["y"], ["y", "v"], ["y", "w"]]),
        "struct(real, ptr struct(ptr array))": dict(
            pre="\ntype itype\n real*8, pointer :: v(:)\nend type\ntype ytype\n real*8 n\n type(itype), pointer :: inner\nend type\n",
            ut=f.StructureType("ytype", (("n", R), ("inner", f.PointerType(f.StructureType("itype", (("v", PA(3)),)))))),
            rhs="\n${result}%n = -2*${y}%n\n${result}%inner%v = -2*${y}%inner%v\n", tname="ytype",
            init="allocate(y0%inner)\nallocate(y0%inner%v(3))\ny0%inner%v = 1\ny0%n = 3\n",
            fini="deallocate(y0%inner%v)\ndeallocate(y0%inner)\n", paths=[["y"], ["y", "inner"], ["y", "inner", "v"]]),
        # three levels: a structure holding a fixed-size array of structures, each owning a pointer member
        "struct(real, array of struct(ptr array))": dict(
            pre="\ntype ctype\n real*8, pointer :: v(:)\nend type\ntype ytype\n real*8 n\n type(ctype), dimension(2) :: cells\nend type\n"
                "integer icell\n",
            ut=f.StructureType("ytype", (("n", R), ("cells", f.ArrayType((2,), f.StructureType("ctype", (("v", PA(3)),)))))),
            rhs="\n${result}%n = -2*${y}%n\ndo icell = 1, 2\n${result}%cells(icell)%v = -2*${y}%cells(icell)%v\nend do\n", tname="ytype",
            init="allocate(y0%cells(1)%v(3))\nallocate(y0%cells(2)%v(3))\ny0%cells(1)%v = 1\ny0%cells(2)%v = 2\ny0%n = 3\n",
            fini="deallocate(y0%cells(1)%v)\ndeallocate(y0%cells(2)%v)\n", paths=[["y"], ["y", "cells", "v"]]),
    }


TYPE_DRIVER = """
program driver
  use dagrtmod, only: dagrt_state_type, %(use)stimestep_initialize => initialize, timestep_run => run, timestep_shutdown => shutdown
  implicit none
  type(dagrt_state_type), pointer :: dagrt_state
  type(dagrt_state_type), pointer :: dagrt_state_ptr
  %(decl)s
  integer istep
  allocate(dagrt_state)
  dagrt_state_ptr => dagrt_state
%(init)s
  call timestep_initialize(dagrt_state=dagrt_state_ptr, state_y=y0, dagrt_t=0d0, dagrt_dt=1d-1, p_count=0d0)
  do istep = 1, 5
    call timestep_run(dagrt_state=dagrt_state_ptr)
  end do
  call timestep_shutdown(dagrt_state=dagrt_state_ptr)
  deallocate(dagrt_state)
%(fini)s
  write(*,*) 'SHUTDOWN-DONE'
end program
"""


def type_module(T):
    """A two-stage method with a rejected step and a move into the state, generated by the real generator for the type."""
    import dagrt.codegen.fortran as f
    from dagrt.function_registry import base_function_registry, register_ode_rhs
    from dagrt.language import CodeBuilder, DAGCode
    from pymbolic import var
    with CodeBuilder("primary") as cb:
        cb("k", "<func>f(<t>, <state>y)")
        cb("w", "<state>y + <dt>*k")
        cb("k", "<func>f(<t> + <dt>, w)")
        cb("w2", "<state>y + <dt>/2*k")
        cb("<p>count", "<p>count + 1")
        with cb.if_("(<p>count - 2)**2 < 0.25"):
            cb.fail_step()
        cb("<state>y", "w2")
        cb("<t>", "<t> + <dt>")
        cb.yield_state(var("<state>y"), "y", var("<t>"), "final")
    code = DAGCode.from_phases_list([cb.as_execution_phase("primary")], "primary")
    freg = register_ode_rhs(base_function_registry, "y", identifier="<func>f", input_names=("y",))
    freg = freg.register_codegen("<func>f", "fortran", f.CallCode(T["rhs"]))
    kw = {"module_preamble": T["pre"]} if T["pre"] else {}
    return f.CodeGenerator("dagrtmod", function_registry=freg, user_type_map={"y": T["ut"]}, **kw)(code)


def type_job(name):
    """(name, TLC case of the two storage routines, sanitizer classes of one real run, warnings)."""
    import shutil
    import subprocess
    import tempfile
    from .common import use_repo
    use_repo()
    T = type_catalogue()[name]
    text = type_module(T)
    alloc, w1 = fextract.type_routine(text, "dagrt_alloc_check_y")
    deinit, w2 = fextract.type_routine(text, "dagrt_deinit_y")
    paths = []
    for i in alloc + deinit:
        if i[0] in ("allocate", "deallocate", "nullify") and i[1] not in paths:
            paths.append(i[1])
    # the pointers the TYPE has (from its definition, not from the emitted text): a routine that forgets one of them
    # must not shrink the object tree it is judged on
    for q in T.get("paths", []):
        if q not in paths:
            paths.append(q)
    paths.sort(key=lambda q: (len(q), q))
    case = {"paths": paths, "alloc": alloc, "deinit": deinit}
    case["ref"] = None
    if len(paths) == 1:
        # no pointer members: the module as a whole fits the reference-count model as well (pointer members are
        # outside what harness/fextract.py parse_module understands)
        ref = tlc_case(text)
        case["ref"] = {k: ref[k] for k in ("subs", "allvec", "allrc", "locals", "flags", "phaselits", "assoclits", "loopflags")}
        w1 = w1 + ref["warnings"]
    drv = TYPE_DRIVER % {"use": (T["tname"] + ", ") if T["tname"] else "", "decl": T.get("decl") or "type(%s) :: y0" % T["tname"],
                         "init": T["init"], "fini": T["fini"]}
    d = tempfile.mkdtemp(prefix="verif_type_")
    try:
        for n, t in (("dagrtmod.f90", text), ("driver.f90", drv)):
            with open(os.path.join(d, n), "w") as f_:
                f_.write(t)
        p = subprocess.run([fortran.FC, "-g", "-O0", "-ffree-line-length-none"] + ASAN + ["-o", "prog", "dagrtmod.f90", "driver.f90"],
                           cwd=d, stdout=subprocess.PIPE, stderr=subprocess.STDOUT, text=True, timeout=180)
        if p.returncode != 0:
            return name, case, {"compile-fail": p.stdout[-300:]}, w1 + w2
        r = subprocess.run([os.path.join(d, "prog")], cwd=d, stdout=subprocess.PIPE, stderr=subprocess.PIPE, text=True, timeout=60,
                           env=dict(os.environ, ASAN_OPTIONS="detect_leaks=1:exitcode=23"))
        seen = {c: (r.stderr.strip().split("\n") or [""])[0][:160] for c in classify(r.stderr)}
        if not seen and "SHUTDOWN-DONE" not in r.stdout:
            seen["NoUseOfFreedOrNull"] = "driver did not finish (rc %d): %s" % (r.returncode, r.stderr[-120:])
        return name, case, seen, w1 + w2
    finally:
        shutil.rmtree(d, ignore_errors=True)


TYPE_CLAUSE = {"NoAccessUnderFreed": "NoUseOfFreedOrNull", "FreeOnce": "FreedOnce", "NoMemberLeak": "NoLeakAtShutdown",
               "CounterNotLive": "NoUseOfFreedOrNull", "CounterFreedWhileShared": "FreedOnce", "EndState": "NoLeakAtShutdown"}


def type_stage(chk):
    """The storage routines emitted for structured user types, run on TypeRoutines.tla; violations are confirmed on the
    sanitizer-instrumented binary of a real method over that type."""
    names = sorted(type_catalogue())
    with multiprocessing.Pool(min(NCPU, len(names))) as pool_:
        res = pool_.map(type_job, names, chunksize=1)
    warn = [w for r in res for w in r[3]]
    if warn:
        raise tlc.MachineryError("type-routine extractor met text it does not understand: %s" % warn[:3])
    out = tlc.judge_batch("TypeRoutines", [{k: r[1][k] for k in ("paths", "alloc", "deinit")} for r in res], chunk=20, jobs=1,
                          tags=("BAD", "RAN"), chk=chk)
    cfg = tlc.temp_cfg("CONSTANTS\n MaxRuns = 2\n MaxIters = 2\nINIT Init\nNEXT Next\nCHECK_DEADLOCK FALSE\nINVARIANT Safety\n"
                       "INVARIANT NoLeakAtShutdown\nCONSTRAINT Bound\n")
    with_ref = [k for k, r in enumerate(res) if r[1]["ref"] is not None]
    out_ref = tlc.judge_batch("RefCount", [res[k][1]["ref"] for k in with_ref], cfg=cfg, chunk=8, workers=2, jobs=4, chk=chk, timeout=1200)
    refbad = {}
    for t in out_ref["BAD"]:
        refbad.setdefault(with_ref[t[1]], set()).add(t[2].split(":")[0])
    ran = {}
    for t in out["RAN"]:
        ran.setdefault(t[1], set()).add((t[2], t[3]))
    bad = {}
    for t in out["BAD"]:
        bad.setdefault(t[1], set()).add(t[2])
        ran.setdefault(t[1], set()).add((t[3], t[4]))
    confirmed = 0
    unexplained = []
    for k, (name, case, seen, _w) in enumerate(res):
        if len(ran.get(k, ())) != 6:
            raise tlc.MachineryError("TypeRoutines: type %s: %d of 6 routine x scenario runs judged" % (name, len(ran.get(k, ()))))
        if "compile-fail" in seen:
            raise tlc.MachineryError("module for user type %s does not compile: %s" % (name, seen["compile-fail"]))
        model = {TYPE_CLAUSE.get(c, c) for c in bad.get(k, ())}
        if model:
            hit = model & set(seen) or (set(seen) if seen else set())
            if hit:
                confirmed += 1
                for clause in sorted(bad[k]):
                    chk.violation("C12:type-routines:%s:%s" % (clause, name),
                                  "the storage routines emitted for user type %s violate %s on the object model, and a real method "
                                  "over that type shows %s under the sanitizer" % (name, clause, seen), {"type": name})
        elif refbad.get(k):
            # the module of this type as a whole violates the reference-count model (the routines themselves are fine)
            for clause in sorted(refbad[k] & set(seen)):
                confirmed += 1
                chk.violation("C12:%s:user-type %s" % (clause, name),
                              "%s: model-checking the skeleton of the module generated for user type %s finds it and the compiled "
                              "module shows %s under the sanitizer" % (clause, name, seen[clause]), {"type": name})
        elif set(seen) - {"other-sanitizer-report"}:
            # a module with pointer members is outside the reference-count model as a whole: the report must be explained by
            # a violation found elsewhere in this run (checked at the end of run)
            unexplained.append((name, seen))
    return {"unexplained": unexplained, "user_types": names, "type_routine_runs_judged": sum(len(v) for v in ran.values()),
            "types_with_model_violation": len(bad), "types_confirmed_on_binary": confirmed,
            "paths": {r[0]: ["%".join(q) for q in r[1]["paths"]] for r in res}}


def structural(method):
    calls = method["phases"][0]["calls"]
    depth = 0
    early_in_guard = early_top = False
    for c in calls:
        if c["op"] in ("if", "else"):
            depth += 1
        elif c["op"] in ("endif", "endelse"):
            depth -= 1
        elif c["op"] in ("fail", "switch", "restart"):
            if depth:
                early_in_guard = True
            else:
                early_top = True
    if early_in_guard:
        return "early-exit-inside-a-guard"
    if early_top:
        return "unconditional-early-exit"
    if any(c["op"] == "if" for c in calls):
        return "guarded-statements-no-early-exit"
    return "straight-line"


def run(chk):
    rng = random.Random(chk.seed)
    alpha = [c for c in fprofile.alphabet(scalars=False)] + [c for c in fprofile.alphabet(ut=False) if c["op"] == "assign" and c["lhs"] in (fprofile.N, fprofile.M)][:3]
    nprog = 40 if chk.quick else 600
    sim, _ = gen.tlc_programs(alpha, 8, simulate=nprog * 4, seed=chk.seed, chk=chk, minlen=3, typed=fprofile.INPUTS)
    pool = [p for p in sim if len(p) >= 3 and any(c.get("lhs") in ("w", "k", "w2") or c.get("lhs") == ["k"] for c in p)]
    rng.shuffle(pool)
    programs = fprofile.core_shapes() + pool[:nprog * 2 // 3]
    while len(programs) < nprog:
        programs.append(gen.random_program(rng, alpha, rng.randint(5, 11), typed=fprofile.INPUTS))
    methods = [{"phases": [{"name": "p0", "next": rng.choice(["p0", "p1"]), "calls": c},
                           {"name": "p1", "next": "p0", "calls": fprofile.P1_CALLS}], "initial": "p0"} for c in programs]
    # both phases use the same temporary names and call the right-hand side inside expressions
    twin = [fprofile.CALL_IN_EXPR] + fprofile.core_shapes()[:4]
    methods += [{"phases": [{"name": "p0", "next": "p1", "calls": c}, {"name": "p1", "next": "p0", "calls": fprofile.P1_SAME_NAMES}],
                 "initial": "p0"} for c in twin]
    methods += [{"phases": [{"name": "p0", "next": "p1", "calls": c}, {"name": "p1", "next": "p0", "calls": fprofile.P1_LAST_USE_IN_CALL}],
                 "initial": "p0"} for c in twin[:2]]
    methods += [{"phases": [{"name": "p0", "next": "p1", "calls": fprofile.P1_LAST_USE_IN_CALL[2:4] + [fprofile.yield_(fprofile.V(fprofile.Y))]},
                            {"name": "p1", "next": "p0", "calls": fprofile.P1_SAME_NAMES}], "initial": "p0"}]
    methods += [{"phases": [{"name": "p0", "next": "p1", "calls": fprofile.CALL_IN_EXPR + [{"op": "switch", "to": "p1"}]},
                            {"name": "p1", "next": "p0", "calls": fprofile.CALL_IN_EXPR[:3] + [{"op": "switch", "to": "p0"}]}], "initial": "p0"}]
    with multiprocessing.Pool(NCPU) as pool_:
        cases = pool_.map(prepare, methods, chunksize=4)
    chk.stage("generate_extract")
    ok = [c for c in cases if "err" not in c]
    warn = [w for c in ok for w in c["warnings"]]
    if warn:
        raise tlc.MachineryError("extractor met text it does not understand: %s" % warn[:3])
    tl = [{k: c[k] for k in ("subs", "allvec", "allrc", "locals", "flags", "phaselits", "assoclits", "loopflags")} for c in ok]
    cfg = tlc.temp_cfg("CONSTANTS\n MaxRuns = %d\n MaxIters = 2\nINIT Init\nNEXT Next\nCHECK_DEADLOCK FALSE\nINVARIANT Safety\n"
                       "INVARIANT NoLeakAtShutdown\nCONSTRAINT Bound\n" % (2 if chk.quick else 3))
    out = tlc.judge_batch("RefCount", tl, cfg=cfg, chunk=8, workers=2, jobs=8, chk=chk, timeout=2400)
    chk.stage("tlc_model_check")
    model = {}
    for t in out["BAD"]:
        model.setdefault(t[1], set()).add(t[2].split(":")[0])
    # dynamic confirmation on the real binary
    todo = sorted(model)
    clean = [k for k in range(len(ok)) if k not in model]
    spot = rng.sample(clean, min(len(clean), 6 if chk.quick else 60))
    with multiprocessing.Pool(NCPU) as pool_:
        dyn = pool_.map(confirm, [ok[k]["method"] for k in todo + spot], chunksize=1)
    chk.stage("sanitizer_runs")
    # marker traces of real runs must be behaviours of the extracted skeleton (binds extractor + model to the binary)
    tsel = [ok[k]["method"] for k in range(min(len(ok), 12 if chk.quick else 80))]
    tseqs = [[(0, 0)], [(3, 0), (1, 2)], [(1, 0), (3, 2), (0, 2)]]
    with multiprocessing.Pool(NCPU) as pool_:
        tcs = [c for lst in pool_.map(trace_cases, [(m, tseqs) for m in tsel], chunksize=1) for c in lst]
    tcs_clean = [c for c in tcs if c["clean"]]
    tkeys = ("subs", "allvec", "allrc", "locals", "flags", "phaselits", "assoclits", "loopflags", "log", "nruns")
    tout = tlc.judge_batch("TraceRefCount", [{k: c[k] for k in tkeys} for c in tcs_clean], chunk=6, workers=1, jobs=12,
                           tags=("ACC",), chk=chk, timeout=1800)
    accepted = {t[1] for t in tout["ACC"]}
    if len(accepted) != len(tcs_clean):
        k = [i for i in range(len(tcs_clean)) if i not in accepted][0]
        os.makedirs(os.path.join(common.VERIF, "replays", "C12"), exist_ok=True)
        with open(os.path.join(common.VERIF, "replays", "C12", "rejected_marker_trace.json"), "w") as f:
            json.dump({kk: tcs_clean[k][kk] for kk in tkeys}, f)
        raise tlc.MachineryError("marker trace of a real run is not a behaviour of the extracted skeleton (extractor or heap "
                                 "model misrepresents the generated code): %d runs, log %s" % (tcs_clean[k]["nruns"], tcs_clean[k]["log"][:12]))
    chk.stage("marker_traces")
    types = type_stage(chk)
    chk.stage("type_routines")
    confirmed = unconfirmed = 0
    nruns = 0
    for k, (seen, n) in zip(todo + spot, dyn):
        nruns += n
        m = ok[k]["method"]
        text = progs.show_prog(m["phases"][0]["calls"])
        if "machinery" in seen or "compile-fail" in seen:
            raise tlc.MachineryError("sanitizer build/run failed for [%s]: %s" % (text, seen))
        if k in model:
            hit = model[k] & set(seen)
            if hit:
                confirmed += 1
                for clause in sorted(hit):
                    chk.violation("C12:%s:%s" % (clause, structural(m)),
                                  "%s: model-checking the emitted skeleton finds it and the compiled module shows it under the "
                                  "sanitizer for input %s (%s); program [%s]" % (clause, seen[clause]["input"], seen[clause]["report"], text),
                                  {"method": m})
            else:
                unconfirmed += 1
        else:
            if set(seen) - {"other-sanitizer-report"}:
                raise tlc.MachineryError("sanitizer reports %s for [%s] but the model found no violation (extractor or model "
                                         "misses something)" % (seen, text))
    unexplained = types.pop("unexplained")
    for name, seen in unexplained:
        if not any(v.signature.split(":")[1] in seen for v in chk.violations):
            raise tlc.MachineryError("sanitizer reports %s for user type %s but no model found such a violation anywhere" % (seen, name))
    chk.coverage.update({
        "evaluations": len(ok),
        "distinct_nontrivial": sum(1 for c in ok if len(c["allvec"]) >= 3),
        "rule": "programs = TLC-simulated and seeded programs of the 'fortran' profile with user-type temporaries, moves, "
                "overwrites, guards on persistent scalars, failures and switches; each emitted by the real generator, its "
                "skeleton model-checked for initialize + <= %d run calls + shutdown under every branch valuation; model "
                "violations confirmed on the sanitizer-instrumented binary over a grid of guard inputs; non-trivial = >= 3 "
                "reference-counted pointers" % (2 if chk.quick else 3),
        "exhaustive": True, "exhaustive_scope": "all branch valuations and run counts within the bound, per program",
        "programs": len(ok), "codegen_errors": len(cases) - len(ok),
        "programs_with_model_violation": len(model), "confirmed_on_binary": confirmed,
        "model_violations_not_reproduced": unconfirmed, "clean_programs_spot_checked_under_sanitizer": len(spot),
        "sanitizer_runs": nruns,
        "type_routines": types,
        "marker_traces_validated": len(tcs_clean), "marker_events": sum(len(c["log"]) for c in tcs_clean),
        "traces_validated_against_impl": nruns + len(tcs_clean),
        "samples": sample([{"program": progs.show_prog(c["method"]["phases"][0]["calls"]),
                            "pointers": c["allvec"], "instructions": sum(len(v) for v in c["subs"].values())} for c in ok], 3),
    })
    chk.assumptions += ["the extractor recognises the call / pointer-assignment forms the generator emits today; text touching a "
                        "counter in another form stops the check with a machinery failure",
                        "allocation never fails; optional inputs of initialize are present",
                        "a model violation that no run of the grid reproduces (correlated guards) is counted, not reported"]


def replay(chk, rep):
    if rep["case"].get("type"):
        name, case, seen, warn = type_job(rep["case"]["type"])
        for rname in ("alloc", "deinit"):
            print(rname)
            for k, i in enumerate(case[rname], 1):
                print("  %2d %s" % (k, i))
        res = tlc.run_tlc("TypeRoutines", cfg="TypeRoutinesStrict",
                          env={"CASES": tlc.write_cases([{k: case[k] for k in ("paths", "alloc", "deinit")}])}, workers=1)
        chk.add_tlc(res)
        print("TLC: %s; sanitizer: %s" % ("%s violated" % res.violated if res.violated else "no violation", seen or "clean"))
        if res.violated and seen:
            chk.violation(rep["signature"], "replayed: storage routines of user type %s violate %s, confirmed on the binary"
                          % (name, res.violated), rep["case"])
        chk.coverage.update({"evaluations": 1, "distinct_nontrivial": 2, "samples": [name]})
        return
    m = rep["case"]["method"]
    case = prepare(m)
    tl = {k: case[k] for k in ("subs", "allvec", "allrc", "locals", "flags", "phaselits", "assoclits", "loopflags")}
    cfg = tlc.temp_cfg("CONSTANTS\n MaxRuns = 3\n MaxIters = 2\nINIT Init\nNEXT Next\nCHECK_DEADLOCK FALSE\nINVARIANT SafetyStrict\n"
                       "INVARIANT NoLeakAtShutdownStrict\nCONSTRAINT Bound\n")
    res = tlc.run_tlc("RefCount", cfg=cfg, env={"CASES": tlc.write_cases([tl])}, workers=2)
    chk.add_tlc(res)
    print(progs.show_prog(m["phases"][0]["calls"]))
    hit = False
    if res.violated:
        tr = res.error_trace()
        print("TLC: %s violated; last state:" % res.violated)
        print(tr[-1][1][-700:] if tr else "")
        seen, n = run_grid(stepper.resolve_fresh(m))
        print("sanitizer over %d runs: %s" % (n, seen))
        hit = bool(set(seen) & {"NoLeakAtShutdown", "FreedOnce", "NoUseOfFreedOrNull"})
    else:
        print("TLC: no violation in the skeleton")
    if hit:
        chk.violation(rep["signature"], "replayed: model violation confirmed on the binary", rep["case"])
    chk.coverage.update({"evaluations": 1, "distinct_nontrivial": 2, "samples": [progs.show_prog(m["phases"][0]["calls"])]})
