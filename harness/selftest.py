"""./check selftest -- binding demonstrations.

For each specification one case is taken from the real code and must be accepted; then one recorded
field is corrupted (an edge dropped, two visits swapped, a leaf moved, a value changed, an
identifier duplicated, a release removed ...) and TLC must reject it with the expected clause.
This shows that the specifications constrain what they read (no vacuous acceptance) and that the
exporters carry the information the verdicts depend on."""

import copy
import sys

from . import common, tlc


def _bad(spec, cases, **kw):
    out = tlc.judge_batch(spec, cases, chunk=50, jobs=2, **kw)
    return sorted({(t[1],) + tuple(str(x) for x in t[2:]) for t in out["BAD"]})


def demo_c02():
    from . import c02
    from .gen import C, V, assign
    good = c02.build_case([assign("n", C(2)), assign("arr", V("a"), sub=[V("n")])])
    bad = copy.deepcopy(good)
    bad["stmts"][1]["deps"] = []                          # drop the recorded edge
    r = _bad("Sched", [good, bad])
    return [c for c in r if c[0] == 0] == [] and any(c[0] == 1 and "ScheduleIndependence" in c for c in r), r


def demo_c04():
    from . import c04
    ev = c04.record(3, [[], [1], [2]], [{"guards": [True] * 3, "reqs": {}, "cut": 0}], c04.SPELLINGS[0])
    good = {"n": 3, "deps": [[], [1], [2]], "events": ev}
    bad = copy.deepcopy(good)
    pops = [k for k, e in enumerate(bad["events"]) if e["ev"] == "pop"]
    bad["events"][pops[0]], bad["events"][pops[1]] = bad["events"][pops[1]], bad["events"][pops[0]]   # swap two visits
    out = tlc.judge_batch("TraceController", [good, bad], chunk=50, jobs=1, tags=("BAD", "ACC"))
    acc = {t[1] for t in out["ACC"]}
    badc = {t[1]: t[3] for t in out["BAD"]}
    return 0 in acc and 0 not in badc and badc.get(1) == "DepsFirst", (sorted(acc), badc)


def demo_c04_guard():
    from . import c04
    chk = common.Check("C04", "quick", "model_checking")
    good_cov = c04.guard_stage(chk, only=(0, 1, 2))
    if chk.violations or not good_cov["guard_visits"]:
        return False, ("original rejected", [v.signature for v in chk.violations])
    # the same recorded visits with one guard value flipped
    import json
    case = {"n": 1, "visits": [{"k": 1, "guard": ["cmp", ">", ["v", "<p>n"], ["c", 0]], "lhs": "<p>n", "rhs": ["c", 0],
                                "before": [["<p>n", ["i", 1]], ["<p>hits", ["i", 0]]], "g": False,
                                "after": [["<p>n", ["i", 1]], ["<p>hits", ["i", 0]]]}]}
    out = tlc.judge_batch("GuardEval", [case], chunk=10, jobs=1, tags=("BAD", "RAN"))
    badc = {t[2] for t in out["BAD"]}
    return "GuardAtVisit" in badc, sorted(badc)


def demo_c06():
    from . import c06
    t = ["B", [["L", 1], ["I", ["v", "c"], ["L", 2]], ["L", 3]]]
    good = c06.apply_real(t, True)
    bad = copy.deepcopy(good)
    bad["out"] = ["B", [["L", 3], ["I", ["v", "c"], ["L", 2]], ["L", 1]]]        # two leaves moved
    r = _bad("Simplify", [good, bad])
    return not [c for c in r if c[0] == 0] and any(c[0] == 1 and "SameLeaves" in c for c in r), r


def demo_c05():
    from . import c05
    case = {"stmts": [{"deps": [], "nop": False, "guard": ["cb", True], "loops": []},
                      {"deps": [1], "nop": False, "guard": ["v", "<cond>c"], "loops": []}], "src": "phasegen"}
    case["trees"], case["err"] = c05.lower_case(case, [(0, 1), (1, 0)])
    bad = copy.deepcopy(case)
    bad["trees"] = [["B", [["I", ["v", "<cond>c"], ["L", 2]], ["L", 1]]]]          # dependent first
    r = _bad("Lower", [case, bad])
    return not [c for c in r if c[0] == 0] and any(c[0] == 1 and "DepsRespected" in c for c in r), r


def demo_c01():
    from . import c01
    from .gen import C, S, V, assign, yield_
    m = c01.make_method([assign("a", S(V("<state>y"), C(1))), yield_(V("a"), comp="a")])
    inp = [["<t>", ["i", 0]], ["<dt>", ["i", 1]], ["<state>y", ["i", 3]], ["<state>w", ["a", [1, 2, 3]]]]
    good = c01.run_case((m, inp, {"max_steps": 1, "t_end": -1}))
    bad = copy.deepcopy(good)
    bad["traces"][1]["events"][0][4] = ["i", 5]                                     # one yielded value changed
    tl = c01.cases_for_tlc([good, bad])
    out = tlc.judge_batch("Stepper", tl, chunk=50, jobs=1, tags=("BAD", "END"))
    badc = {t[1]: t[2:] for t in out["BAD"]}
    end = {t[1]: t[2] for t in out["END"]}
    return end.get(0) == "accepted" and 1 in badc and badc[1][0] == "pycodegen", (end, badc)


def demo_c13():
    from . import c13
    rp = c13.reserved_file()[0]
    steps = c13.run_history("fortran", [[1, ["k", 1]], [1, ["k", 3]]], c13.POOL_SMALL)
    good = {"target": "fortran", "steps": [{"ns": s["ns"], "key": s["key"], "out": s["out"]} for s in steps]}
    bad = copy.deepcopy(good)
    bad["steps"][1]["out"] = bad["steps"][0]["out"]                                 # same identifier for another key
    out = tlc.judge_batch("Names", [good, bad], chunk=50, jobs=1, tags=("BAD", "ACC"), env={"RESERVED": rp})
    badc = {(t[1], t[3]) for t in out["BAD"]}
    return not [b for b in badc if b[0] == 0] and (1, "Injective") in badc, sorted(badc)


def demo_c20():
    line = 'r = ["s t", bb + 1]'
    good = {"target": "python", "line": list(line), "level": 0, "indent": 4, "width": 16,
            "out": [list('r = ["s t",    \\'), list("    bb + 1]")], "ast": "same"}
    bad = copy.deepcopy(good)
    bad["out"] = [list('r = ["s        \\'), list('    t", bb + 1]')]                # string split across lines
    r = _bad("Wrap", [good, bad])
    return not [c for c in r if c[0] == 0] and any(c[0] == 1 and "NoStringSplit" in c for c in r), r


def demo_c10():
    from . import c10
    m = {"phases": [{"name": "A", "stmts": [{"id": "a1", "deps": ["a2"], "switch": "", "flag": ""},
                                            {"id": "a2", "deps": ["a1"], "switch": "", "flag": ""}]}]}
    good = {"method": m, "outcome": c10.observe(m)}
    bad = copy.deepcopy(good)
    bad["outcome"] = {"verify": "accepted", "nmsgs": 0, "consumers": []}              # a cycle reported as accepted
    out = tlc.judge_batch("Verify", [good, bad], chunk=50, jobs=1, tags=("BAD", "WF"))
    badc = {(t[1], t[2]) for t in out["BAD"]}
    return not [b for b in badc if b[0] == 0] and (1, "AcceptIff") in badc, sorted(badc)


def demo_c12():
    from . import c12, fprofile
    shapes = fprofile.core_shapes()
    m = {"phases": [{"name": "p0", "next": "p0", "calls": shapes[0]},
                    {"name": "p1", "next": "p0", "calls": fprofile.P1_CALLS}], "initial": "p0"}
    case = c12.prepare(m)
    keys = ("subs", "allvec", "allrc", "locals", "flags", "phaselits", "assoclits", "loopflags")
    good = {k: case[k] for k in keys}
    bad = copy.deepcopy(good)
    sub = bad["subs"]["dagrt_phase_func_p0"]
    # turn the releases at the exit label into no-ops (a use of the state vector keeps jump targets intact)
    last = [k for k, i in enumerate(sub) if i[0] == "deinit" and i[1].startswith("lploc_")][-3:]
    for k in last:
        sub[k] = ["use", "dagrt_state%state_y"]
    cfg = tlc.temp_cfg("CONSTANTS\n MaxRuns = 2\n MaxIters = 2\nINIT Init\nNEXT Next\nCHECK_DEADLOCK FALSE\nINVARIANT Safety\n"
                       "INVARIANT NoLeakAtShutdown\nCONSTRAINT Bound\n")
    out = tlc.judge_batch("RefCount", [good, bad], cfg=cfg, chunk=50, jobs=1, workers=2)
    badc = {(t[1], t[2]) for t in out["BAD"]}
    return not [b for b in badc if b[0] == 0] and (1, "NoLeakAtShutdown") in badc, sorted(badc)


def demo_c12_trace():
    from . import c12, fprofile
    m = {"phases": [{"name": "p0", "next": "p0", "calls": fprofile.core_shapes()[0]},
                    {"name": "p1", "next": "p0", "calls": fprofile.P1_CALLS}], "initial": "p0"}
    tcs = c12.trace_cases((m, [[(3, 0), (1, 2)]]))
    keys = ("subs", "allvec", "allrc", "locals", "flags", "phaselits", "assoclits", "loopflags", "log", "nruns")
    good = {k: tcs[0][k] for k in keys}
    bad = copy.deepcopy(good)
    k = [j for j, e in enumerate(bad["log"]) if e[0] == "deinit"][len(bad["log"]) // 4]
    del bad["log"][k]                                                              # one recorded release removed
    out = tlc.judge_batch("TraceRefCount", [good, bad], chunk=50, jobs=1, tags=("ACC",))
    acc = sorted({t[1] for t in out["ACC"]})
    return tcs[0]["clean"] and acc == [0], (tcs[0]["clean"], acc, len(good["log"]))


def demo_c12_types():
    from . import c12
    _name, good, seen, warn = c12.type_job("struct(real, ptr array)")
    bad = copy.deepcopy(good)
    d = bad["deinit"]
    k = [j for j, i in enumerate(d) if i == ["deallocate", ["y"]]][0]
    m = [j for j, i in enumerate(d) if i == ["deallocate", ["y", "v"]]][0]
    d[k], d[m] = d[m], d[k]                                                          # container released before its member
    keys = ("paths", "alloc", "deinit")
    out = tlc.judge_batch("TypeRoutines", [{k: c[k] for k in keys} for c in (good, bad)], chunk=50, jobs=1, tags=("BAD", "RAN"))
    badc = {(t[1], t[2]) for t in out["BAD"]}
    ran0 = {(t[2], t[3]) for t in out["RAN"] if t[1] == 0}
    return (not seen and not warn and len(ran0) == 6 and not [b for b in badc if b[0] == 0]
            and bool({(1, "NoMemberLeak"), (1, "NoAccessUnderFreed")} & badc)), (sorted(badc), len(ran0), seen)


def demo_c16():
    from . import c16
    from .gen import CMP, V, assign, if_
    prog = [if_(CMP("<", V("a"), V("b"))), assign("b", V("a")), {"op": "endif"}]
    fc = c16.fuse_case(prog, prog, "default")
    keys = ("a", "b", "fused", "wa", "wb", "pred", "persistent", "a_after", "b_after")
    good = {k: fc[k] for k in keys}
    bad = copy.deepcopy(good)
    # the guard of the second method's statement points at the first method's flag
    tgt = bad["fused"][bad["wb"][1] - 1]
    tgt["names"][0] = good["fused"][good["wa"][1] - 1]["names"][0]
    r = _bad("Fuse", [good, bad])
    return not [c for c in r if c[0] == 0] and any(c[0] == 1 and "RenamingFunction" in c for c in r), r


DEMOS = [("C02 Sched: dropped dependency edge", demo_c02), ("C04 TraceController: swapped visits", demo_c04),
         ("C04 GuardEval: guard value not that of the visit", demo_c04_guard),
         ("C05 Lower: dependent leaf first", demo_c05), ("C06 Simplify: leaves moved", demo_c06),
         ("C01 Stepper: yielded value changed", demo_c01), ("C13 Names: identifier reused", demo_c13),
         ("C20 Wrap: string split", demo_c20), ("C10 Verify: cycle reported accepted", demo_c10),
         ("C12 RefCount: exit-label releases removed", demo_c12),
         ("C12 TraceRefCount: one logged release removed", demo_c12_trace),
         ("C12 TypeRoutines: container released before member", demo_c12_types), ("C16 Fuse: guard points at the other flag", demo_c16)]


def main():
    common.use_repo()
    failed = 0
    for name, fn in DEMOS:
        try:
            ok, info = fn()
        except Exception as e:
            ok, info = False, "exception %s: %s" % (type(e).__name__, e)
        print("%-50s %s" % (name, "ok (original accepted, corrupted rejected)" if ok else "FAILED: %s" % (info,)))
        failed += not ok
    tlc.cleanup()
    print("%d of %d binding demonstrations passed" % (len(DEMOS) - failed, len(DEMOS)))
    return 0 if failed == 0 else 2
