"""C18 -- constant hoisting preserves value and hoists only constants.

Expressions are behaviours of specs/ExprGen.tla; for every subset of an expression's variables
declared free the real collapse_constants is run; specs/ExprContracts.tla (Hoist clauses) judges."""

import itertools

from . import exprgen, exprs, tlc
from .common import sample

LEVEL = "model_checking"


def hoist(e_json, free):
    from pymbolic import var
    from dagrt.expression import collapse_constants
    e = exprs.from_json(e_json)
    counter = [0]
    assigns = []

    def new_var():
        counter[0] += 1
        return var("cse_%d" % counter[0])

    def assign(v, ex):
        assigns.append([v.name if hasattr(v, "name") else str(v), exprs.to_json(ex)])

    case = {"kind": "hoist", "e": e_json, "free": list(free), "out": ["none"], "assigns": [], "err": "",
            "vars": exprgen.data_vars(e_json)}
    try:
        out = collapse_constants(e, [var(n) for n in free], assign, new_var)
        case["out"] = exprs.to_json(out)
        case["assigns"] = assigns
    except Exception as ex:
        case["err"] = type(ex).__name__
    return case


def _fresh_job(e):
    """All free sets of one expression, smallest first, in a process that has not called collapse_constants before
    (state left behind by earlier calls must not matter; here there is none but that of the expression's own calls)."""
    from .common import use_repo
    use_repo()
    vs = exprgen.data_vars(e) + (["arr"] if "arr" in exprs.variables(e) else [])
    subsets = [c for r in range(len(vs) + 1) for c in itertools.combinations(vs, r)]
    return [hoist(e, fr) for fr in subsets[:8]]


def _nodes(j):
    yield j
    for x in j[1:]:
        if isinstance(x, list):
            for y in x:
                if isinstance(y, list) and y and isinstance(y[0], str):
                    yield from _nodes(y)


def run(chk):
    maxt = 5 if chk.quick else 6
    es = exprgen.generate(chk, maxt, full="arith-small", roots=("a",))
    es = [e for e in es if e[0] not in ("v", "c")]
    n_exh = len(es)
    es += [e for e in exprgen.generate(chk, 9, full="arith", roots=("a",), simulate=300 if chk.quick else 15000, depth=10)
           if e[0] not in ("v", "c")]
    # regrouping family: n-ary sums and products over two leaves, so that the same tuple of constant children
    # occurs under different operators / at several places of one expression
    rg = [e for e in exprgen.generate(chk, 9, full="regroup", roots=("a",)) if e[0] not in ("v", "c")]
    import random
    rng = random.Random(chk.seed)
    small = [e for e in rg if sum(1 for _ in _nodes(e)) <= 7]
    big = [e for e in rg if sum(1 for _ in _nodes(e)) > 7]
    es += small + (rng.sample(big, min(len(big), 6000)) if chk.quick else big)
    # the same constant subexpression at several places that regrouping cannot merge (inside two calls, in base and
    # exponent, in numerator and denominator): every occurrence is hoisted and every hoisted variable is assigned
    X, Yv, Z, W = ["v", "x"], ["v", "y"], ["v", "<state>z"], ["v", "<p>w"]
    f = lambda *a, **kw: ["call", ["v", "<func>f"], list(a), [[k, v] for k, v in kw.items()]]     # noqa: E731
    g = lambda a, b: ["call", ["v", "<func>g"], [a, b], []]                                         # noqa: E731
    for K in (["sum", [Z, W]], ["prod", [["c", 2], Z]], ["pow", Z, ["c", 2]], f(Z), ["sum", [Z, ["c", 1]]]):
        es += [["sum", [f(K, k=X), g(K, X)]], ["sum", [g(K, X), g(K, Yv)]], ["prod", [f(K), ["sum", [X, f(K)]]]],
               ["sum", [["pow", ["sum", [K, X]], ["c", 2]], ["prod", [X, K]]]], ["sum", [["prod", [X, f(K)]], ["quot", Yv, f(K)]]],
               g(["sum", [K, X]], ["sum", [K, Yv]]), ["sum", [f(X, k=K), f(Yv, k=K, m=K)]]]
    # flat (n-ary) constant products and sums with a leading literal where the generic hoist sees them: call arguments,
    # keyword values, bases and exponents
    for lit in (-1, 2):
        for op in ("prod", "sum"):
            K3 = [op, [["c", lit], Z, W]]
            K4 = [op, [["c", lit], Z, W, ["v", "y"]]]
            es += [f(K3, k=X), g(K3, X), f(X, k=K3), ["sum", [X, f(K3)]], ["pow", K3, ["c", 2]], ["prod", [X, ["pow", K3, ["c", 2]]]],
                   g(K4, X), ["sum", [f(K4), X]]]
    cases = []
    for e in es:
        vs = exprgen.data_vars(e) + (["arr"] if "arr" in exprs.variables(e) else [])
        subsets = [c for r in range(len(vs) + 1) for c in itertools.combinations(vs, r)]
        if len(subsets) > 8:
            subsets = subsets[:4] + subsets[-4:]
        for fr in subsets:
            cases.append(hoist(e, fr))
        # a function symbol may be declared free as well: alone (everything else is constant) and with one variable
        fsyms = sorted({n[1][1] for n in _nodes(e) if n[0] == "call" and n[1][0] == "v"})
        for fs in fsyms[:2]:
            cases.append(hoist(e, (fs,)))
            if vs:
                cases.append(hoist(e, (fs, vs[len(cases) % len(vs)])))
    # the same calls without the history of this process: one fresh process per expression
    import multiprocessing
    import random as _random
    from .common import NCPU
    pick = _random.Random(chk.seed).sample(es, min(len(es), 320 if chk.quick else 4000))
    # "spawn": a forked worker would inherit this process's history
    with multiprocessing.get_context("spawn").Pool(NCPU, maxtasksperchild=1) as pool:
        for lst in pool.map(_fresh_job, pick, chunksize=1):
            cases.extend(lst)
    chk.stage("collapse")
    out = tlc.judge_batch("ExprContracts", cases, chunk=1500, chk=chk, jobs=12)
    chk.stage("tlc_judge")
    bad = {}
    for t in out["BAD"]:
        bad.setdefault(t[1], set()).add(t[2])
    for k in sorted(bad):
        c = cases[k]
        for clause in sorted(bad[k]):
            chk.violation("C18:%s:%s" % (clause, c["err"] or c["e"][0]),
                          "%s: collapse_constants(%s, free=%s) -> %s with %s" % (
                              clause, exprs.show(c["e"]), c["free"], c["err"] or exprs.show(c["out"]),
                              [(n, exprs.show(x)) for n, x in c["assigns"]]), {"e": c["e"], "free": c["free"]})
    chk.coverage.update({
        "evaluations": len(cases),
        "distinct_nontrivial": sum(1 for c in cases if c["assigns"]),
        "rule": "expressions = every compound ExprGen behaviour with <= %d nodes over sums, products, powers and calls + "
                "simulated ones up to 9 nodes also with quotients and subscripts (the property's expression classes; "
                "no logical operators or conditional expressions), each with every subset of its variables declared free "
                "(first and last four subsets beyond 8); judged under all valuations in {-1,0,2}^vars x 2 function "
                "interpretations; non-trivial = something was hoisted" % maxt,
        "exhaustive": True, "exhaustive_scope": "all expressions up to %d nodes (reduced operator set) x all free sets" % maxt,
        "expressions_exhaustive": n_exh, "cases_with_violation": len(bad),
        "errors": sum(1 for c in cases if c["err"]),
        "traces_validated_against_impl": len(cases),
        "samples": sample([{"e": exprs.show(c["e"]), "free": c["free"], "out": exprs.show(c["out"]),
                            "hoisted": [(n, exprs.show(x)) for n, x in c["assigns"]]} for c in cases if c["assigns"]], 5),
    })
    chk.assumptions += ["values compared on integers/booleans; hoisted assignments are evaluated in the order the "
                        "callback received them"]


def replay(chk, rep):
    c = hoist(rep["case"]["e"], rep["case"]["free"])
    print("e =", exprs.show(c["e"]), "free =", c["free"])
    print("out =", c["err"] or exprs.show(c["out"]), "hoisted =", [(n, exprs.show(x)) for n, x in c["assigns"]])
    res = tlc.run_tlc("ExprContracts", cfg="ExprContractsStrict", env={"CASES": tlc.write_cases([c])}, workers=1)
    chk.add_tlc(res)
    if res.violated:
        print("TLC: %s violated" % res.violated)
        chk.violation(rep["signature"], "replayed case still violates %s" % res.violated, rep["case"])
    else:
        print("TLC: accepted")
    chk.coverage.update({"evaluations": 1, "distinct_nontrivial": 2, "samples": [exprs.show(c["e"])]})
