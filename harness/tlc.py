"""Running TLC on the specifications in /verif/specs and reading back what it printed.

Every property verdict in this framework is produced by TLC.  The pattern used
throughout is a *batch*: the harness writes the cases (artefacts or traces taken
from the code under $DAGRT_REPO) to a JSON file, the specification reads it with
``JsonDeserialize(IOEnv.CASES)``, picks a case in ``Init`` and explores whatever the
property quantifies over.  Verdict invariants have the form
``Good \\/ PrintT(<<"BAD", cid, clause, ...>>)`` so that one TLC run reports every
violating case; the harness then re-runs single cases with the strict invariant to
obtain the counterexample behaviour for the replay file.
"""

import json
import os
import re
import shutil
import subprocess
import tempfile
import time

VERIF = os.path.dirname(os.path.dirname(os.path.abspath(__file__)))
SPECS = os.path.join(VERIF, "specs")
JAR = "/opt/veriftools/tla/tla2tools.jar:/opt/veriftools/tla/CommunityModules-deps.jar"


class MachineryError(Exception):
    """TLC crashed, timed out or printed something unreadable: exit code 2, never a verdict."""


# ---------------------------------------------------------------------------
# parser for TLA+ values as printed by TLC
# ---------------------------------------------------------------------------

class _P:
    def __init__(self, s, i=0):
        self.s = s
        self.i = i

    def ws(self):
        s = self.s
        while self.i < len(s) and s[self.i] in " \t\r\n":
            self.i += 1

    def peek(self, k=1):
        return self.s[self.i:self.i + k]

    def expect(self, tok):
        self.ws()
        if not self.s.startswith(tok, self.i):
            raise ValueError("expected %r at %d: %r" % (tok, self.i, self.s[self.i:self.i + 40]))
        self.i += len(tok)

    def value(self):
        self.ws()
        s = self.s
        c = self.peek()
        if self.peek(2) == "<<":
            self.i += 2
            out = []
            self.ws()
            if self.peek(2) == ">>":
                self.i += 2
                return tuple(out)
            while True:
                out.append(self.value())
                self.ws()
                if self.peek(2) == ">>":
                    self.i += 2
                    return tuple(out)
                self.expect(",")
        if c == '"':
            self.i += 1
            buf = []
            while True:
                ch = s[self.i]
                if ch == "\\":
                    nxt = s[self.i + 1]
                    buf.append({"n": "\n", "t": "\t", '"': '"', "\\": "\\"}.get(nxt, nxt))
                    self.i += 2
                elif ch == '"':
                    self.i += 1
                    return "".join(buf)
                else:
                    buf.append(ch)
                    self.i += 1
        if c == "{":
            self.i += 1
            out = []
            self.ws()
            if self.peek() == "}":
                self.i += 1
                return frozenset(out)
            while True:
                out.append(self.value())
                self.ws()
                if self.peek() == "}":
                    self.i += 1
                    try:
                        return frozenset(out)
                    except TypeError:
                        return tuple(out)
                self.expect(",")
        if c == "[":
            self.i += 1
            out = {}
            self.ws()
            if self.peek() == "]":
                self.i += 1
                return out
            while True:
                self.ws()
                m = re.compile(r"[^\s|]+").match(s, self.i)
                key = m.group(0)
                self.i = m.end()
                self.expect("|->")
                out[key] = self.value()
                self.ws()
                if self.peek() == "]":
                    self.i += 1
                    return out
                self.expect(",")
        if c == "(":
            # function printed as (k1 :> v1 @@ k2 :> v2)
            self.i += 1
            out = {}
            while True:
                k = self.value()
                self.expect(":>")
                v = self.value()
                out[k] = v
                self.ws()
                if self.peek() == ")":
                    self.i += 1
                    return out
                self.expect("@@")
        m = re.compile(r"-?\d+").match(s, self.i)
        if m:
            self.i = m.end()
            return int(m.group(0))
        m = re.compile(r"[A-Za-z_][A-Za-z0-9_]*").match(s, self.i)
        if m:
            self.i = m.end()
            w = m.group(0)
            if w == "TRUE":
                return True
            if w == "FALSE":
                return False
            return w
        raise ValueError("cannot parse TLA+ value at %d: %r" % (self.i, s[self.i:self.i + 40]))


def parse_value(text):
    p = _P(text)
    v = p.value()
    return v


def find_tagged(stdout, tag):
    """All values ``<<"tag", ...>>`` printed with PrintT, found by bracket matching
    (long values are wrapped over several lines by TLC's pretty printer)."""
    out = []
    needle = '<<"%s"' % tag
    i = 0
    while True:
        j = stdout.find(needle, i)
        if j < 0:
            return out
        p = _P(stdout, j)
        try:
            out.append(p.value())
            i = p.i
        except (ValueError, IndexError):
            i = j + 2


def find_json_lines(stdout, tag):
    """Lines printed with PrintT("<tag> " \\o ToJson(x)) -- a TLA+ string, hence one line."""
    out = []
    pref = '"%s ' % tag
    for line in stdout.splitlines():
        if line.startswith(pref) and line.endswith('"'):
            body = parse_value(line)
            out.append(json.loads(body[len(tag) + 1:]))
    return out


# ---------------------------------------------------------------------------
# running TLC
# ---------------------------------------------------------------------------

class TLCResult:
    def __init__(self, stdout, rc, wall):
        self.stdout = stdout
        self.rc = rc
        self.wall = wall
        m = re.findall(r"(\d+) states generated, (\d+) distinct states found", stdout)
        self.generated = int(m[-1][0]) if m else 0
        self.distinct = int(m[-1][1]) if m else 0
        m = re.search(r"depth of the complete state graph search is (\d+)", stdout)
        self.depth = int(m.group(1)) if m else 0
        m = re.search(r"Invariant (\S+) is violated", stdout)
        self.violated = m.group(1) if m else None
        if self.violated is None:
            m = re.search(r"Action property (\S+) is violated", stdout)
            self.violated = m.group(1) if m else None
        if self.violated is None and "Temporal properties were violated" in stdout:
            self.violated = "temporal"
        self.deadlock = "Deadlock reached" in stdout
        self.completed = ("Model checking completed" in stdout
                          or "Finished computing" in stdout and "Finished in" in stdout)

    @property
    def ok(self):
        return self.rc == 0 and self.violated is None

    def tagged(self, tag):
        return find_tagged(self.stdout, tag)

    def json_lines(self, tag):
        return find_json_lines(self.stdout, tag)

    def error_trace(self):
        """The counterexample behaviour as a list of (header, text-of-state)."""
        states = []
        cur = None
        for line in self.stdout.splitlines():
            m = re.match(r"State (\d+): (.*)", line)
            if m:
                cur = [m.group(2), []]
                states.append(cur)
            elif cur is not None:
                if line.strip() == "" or line.startswith(("Error:", "Finished", "The ", "  ")) \
                        and not line.startswith("/\\") and re.match(r"\d+ states", line):
                    cur = None
                elif re.match(r"\d+ states generated", line):
                    cur = None
                else:
                    cur[1].append(line)
        return [(h, "\n".join(b).strip()) for h, b in states]

    def coverage(self):
        """Per-action counts from ``-coverage``: {action: (distinct, total)}."""
        out = {}
        for m in re.finditer(r"<(\w+) line \d+, col \d+ to line \d+, col \d+ of module (\w+)>: (\d+):(\d+)",
                             self.stdout):
            name = m.group(1)
            d, t = int(m.group(3)), int(m.group(4))
            if name in out:
                out[name] = (max(out[name][0], d), max(out[name][1], t))
            else:
                out[name] = (d, t)
        return out


def run_tlc(spec, cfg=None, env=None, workers=None, timeout=900, simulate=None, depth=None,
            seed=None, coverage=False, extra=(), cont=False, deadlock=False, dfs_queue=False):
    """Run TLC on specs/<spec>.tla with specs/<cfg>.cfg.  Raises MachineryError when TLC
    itself fails (parse error, evaluation error, timeout); a violated invariant is a result."""
    spec_path = os.path.join(SPECS, spec + ".tla")
    cfg_path = cfg if (cfg and os.path.isabs(cfg)) else os.path.join(SPECS, (cfg or spec) + ".cfg")
    meta = tempfile.mkdtemp(prefix="tlcmeta_")
    e = dict(os.environ)
    e.update({k: str(v) for k, v in (env or {}).items()})
    jopts = ["-XX:+UseParallelGC", "-Xss16m"]
    if dfs_queue:
        jopts.append("-Dtlc2.tool.queue.IStateQueue=StateDeque")
    cmd = ["java"] + jopts + ["-cp", JAR, "tlc2.TLC", "-metadir", meta, "-noGenerateSpecTE",
                               "-config", cfg_path]
    if workers is None:
        workers = "auto"
    cmd += ["-workers", str(workers)]
    if simulate:
        cmd += ["-simulate", simulate]
    if depth:
        cmd += ["-depth", str(depth)]
    if seed is not None:
        cmd += ["-seed", str(seed)]
    if coverage:
        cmd += ["-coverage", "1"]
    if cont:
        cmd += ["-continue"]
    if deadlock:
        cmd += ["-deadlock"]
    cmd += list(extra)
    cmd += [spec_path]
    t0 = time.time()
    try:
        p = subprocess.run(cmd, cwd=SPECS, env=e, stdout=subprocess.PIPE, stderr=subprocess.STDOUT,
                           timeout=timeout, text=True, errors="replace")
    except subprocess.TimeoutExpired as ex:
        raise MachineryError("TLC timed out after %ss on %s/%s" % (timeout, spec, cfg or spec)) from ex
    finally:
        shutil.rmtree(meta, ignore_errors=True)
    res = TLCResult(p.stdout, p.returncode, time.time() - t0)
    # TLC exit codes: 0 ok, 10 assumption, 11 deadlock, 12 safety violation, 13 liveness violation
    if p.returncode not in (0, 11, 12, 13) or (p.returncode != 0 and res.violated is None
                                               and not res.deadlock):
        tail = "\n".join(p.stdout.splitlines()[-60:])
        raise MachineryError("TLC failed (rc=%d) on %s/%s:\n%s" % (p.returncode, spec, cfg or spec, tail))
    return res


def write_cases(cases, prefix="cases_"):
    """Write a batch to a scratch JSON file (removed by the caller through cleanup())."""
    fd, path = tempfile.mkstemp(prefix=prefix, suffix=".json")
    with os.fdopen(fd, "w") as f:
        json.dump(cases, f)
    _scratch.append(path)
    return path


_scratch = []


def temp_cfg(text):
    """A configuration file with constants computed by the harness (bounds per tier)."""
    fd, path = tempfile.mkstemp(prefix="cfg_", suffix=".cfg")
    with os.fdopen(fd, "w") as f:
        f.write(text)
    _scratch.append(path)
    return path


def cleanup():
    for p in _scratch:
        try:
            os.remove(p)
        except OSError:
            pass
    del _scratch[:]


def judge_batch(spec, cases, cfg=None, chunk=2500, tags=("BAD",), workers=1, jobs=8, timeout=1800,
                chk=None, env=None):
    """Judge a list of cases with several TLC processes side by side (the per-case state spaces are
    tiny, so one worker per process and several processes is much faster than one process with 16
    workers).  Every tagged tuple carries the case number in position 1; it is translated back to
    the 0-based index into `cases`.  Returns {tag: [tuple, ...]}."""
    from concurrent.futures import ThreadPoolExecutor
    offs = list(range(0, len(cases), chunk))

    def one(off):
        path = write_cases(cases[off:off + chunk])
        e = dict(env or {})
        e["CASES"] = path
        return off, run_tlc(spec, cfg=cfg, env=e, workers=workers, timeout=timeout)

    out = {t: [] for t in tags}
    with ThreadPoolExecutor(max_workers=jobs) as ex:
        for off, res in ex.map(one, offs):
            if chk is not None:
                chk.add_tlc(res)
            for t in tags:
                for tup in res.tagged(t):
                    out[t].append((tup[0], off + tup[1] - 1) + tuple(tup[2:]))
    return out
