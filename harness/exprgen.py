"""Expressions for C17-C19: behaviours of specs/ExprGen.tla turned into expression trees."""

from . import tlc

LEAVES = {"x": ["v", "x"], "y": ["v", "y"], "sz": ["v", "<state>z"], "pw": ["v", "<p>w"],
          "c0": ["c", 0], "c1": ["c", 1], "c2": ["c", 2], "cm1": ["c", -1], "p": ["v", "p"], "q": ["v", "q"]}
ARITY = {"sum2": 2, "sum3": 3, "prod2": 2, "prod3": 3, "neg": 1, "pow2": 1, "powc": 1, "quot": 2, "callf": 1, "callfk": 2, "callfkm": 3,
         "callg": 2, "sub": 1, "min2": 2, "max2": 2, "if": 3, "lt": 2, "eq": 2, "ne": 2, "ge": 2, "and2": 2,
         "or2": 2, "not": 1}


def build(toks):
    pos = [0]

    def node():
        t = toks[pos[0]]
        pos[0] += 1
        if t in LEAVES:
            return LEAVES[t]
        k = [node() for _ in range(ARITY[t])]
        if t in ("sum2", "sum3"):
            return ["sum", k]
        if t in ("prod2", "prod3"):
            return ["prod", k]
        if t == "neg":
            return ["prod", [["c", -1], k[0]]]
        if t == "pow2":
            return ["pow", k[0], ["c", 2]]
        if t == "powc":
            return ["pow", ["c", 2], k[0]]
        if t == "quot":
            return ["quot", k[0], k[1]]
        if t == "callf":
            return ["call", ["v", "<func>f"], [k[0]], []]
        if t == "callfk":
            return ["call", ["v", "<func>f"], [k[0]], [["k", k[1]]]]
        if t == "callfkm":
            return ["call", ["v", "<func>f"], [k[0]], [["k", k[1]], ["m", k[2]]]]
        if t == "callg":
            return ["call", ["v", "<func>g"], [k[0], k[1]], []]
        if t == "sub":
            return ["sub", ["v", "arr"], [k[0]]]
        if t == "min2":
            return ["min", k]
        if t == "max2":
            return ["max", k]
        if t == "if":
            return ["if", k[0], k[1], k[2]]
        if t in ("lt", "eq", "ne", "ge"):
            return ["cmp", {"lt": "<", "eq": "==", "ne": "!=", "ge": ">="}[t], k[0], k[1]]
        if t == "and2":
            return ["and", k]
        if t == "or2":
            return ["or", k]
        if t == "not":
            return ["not", k[0]]
        raise ValueError(t)

    e = node()
    assert pos[0] == len(toks)
    return e


ALL_LEAVES = ["x", "y", "sz", "pw", "c0", "c1", "c2", "cm1"]
SETS = {
    "full": ALL_LEAVES + list(ARITY),
    "small": ["x", "y", "sz", "c1", "c2", "cm1", "sum2", "prod2", "neg", "pow2", "callf", "callfk", "sub", "if", "lt",
              "and2", "not"],
    "arith": ALL_LEAVES + ["sum2", "sum3", "prod2", "neg", "pow2", "powc", "quot", "callf", "callfk", "callfkm", "callg", "sub"],
    "regroup": ["x", "y", "sum2", "sum3", "prod2", "prod3"],
    "template": ["p", "q", "x", "c1", "c2", "sum2", "sum3", "prod2", "neg", "callf", "callfk", "callfkm", "callg"],
    "arith-small": ["x", "y", "sz", "c1", "c2", "cm1", "sum2", "sum3", "prod2", "neg", "pow2", "callf", "callfk", "callg"],
}


def generate(chk, max_tokens, full="full", roots=("a",), simulate=None, depth=None):
    if full is True:
        full = "full"
    elif full is False:
        full = "small"
    cfg = tlc.temp_cfg("CONSTANTS\n MaxTokens = %d\n RootSorts = {%s}\n Allowed = {%s}\nINIT Init\nNEXT Next\n"
                       "CHECK_DEADLOCK FALSE\nINVARIANT Dump\n"
                       % (max_tokens, ", ".join('"%s"' % r for r in roots), ", ".join('"%s"' % t for t in SETS[full])))
    if simulate:
        res = tlc.run_tlc("ExprGen", cfg=cfg, workers=1, simulate="num=%d" % simulate, depth=depth or max_tokens + 1,
                          seed=chk.seed)
    else:
        res = tlc.run_tlc("ExprGen", cfg=cfg, workers=4, timeout=1800)
    chk.add_tlc(res)
    seen, out = set(), []
    for toks in res.json_lines("GEN"):
        key = tuple(toks)
        if key not in seen:
            seen.add(key)
            out.append(build(toks))
    return out


def data_vars(e):
    """Variables a valuation must cover (arr is given a fixed array value by the spec)."""
    from . import exprs
    return sorted(v for v in exprs.variables(e) if v != "arr" and not v.startswith("<func>") and not v.startswith("<cond>"))
