"""C11 -- a failing user function leaves the stepper consistent and resumable.

For programs with tagged user-function calls, every (call site, occurrence) that happens in the
fault-free run is made to raise, on both back ends.  specs/Stepper.tla decides (i) the run up to
and including the exception (events before it, same exception object, no temporaries left, next
phase, every persistent variable at its pre-step value or at a value the written program assigns
independently of the failed call) and (ii) that stepping on from the observed state equals the run
of a fresh stepper started in that state and phase, and equals the reference."""

import copy
import multiprocessing
import random

from . import gen, progs, stepper, tlc
from .c01 import CAP, INPUTS, P, SUB, W, Y, make_method
from .common import NCPU, sample
from .gen import CMP, C, S, V, acall, assign, if_, yield_

LEVEL = "fault_enumeration"


def fcall(lhs, arg, tag):
    return acall([lhs], "<func>f", [arg], kw=[["k", C(tag)]])


def alphabet():
    return [
        fcall("a", Y, 1),
        fcall("b", V("a"), 2),
        fcall("<state>y", Y, 3),
        fcall("<p>q", C(1), 4),
        assign("<state>y", S(Y, V("a"))),
        assign("<state>y", S(Y, C(1))),
        assign("<p>q", C(7)),
        assign("<p>r", S(V("b"), C(1))),
        assign(W, V("a"), sub=[C(0)]),
        assign(W, C(9), sub=[C(1)]),
        assign("c", S(Y, C(2))),
        assign("<p>r", V("c")),
        yield_(Y),
        yield_(V("a"), comp="a"),
        {"op": "fail"},
        {"op": "switch", "to": "p1"},
        if_(CMP(">", V("a"), C(3))),
        if_(CMP("<", Y, C(2))),
        assign("<t>", S(V("<t>"), V("<dt>"))),
        acall(["a", "b"], "<func>g2", [Y]),
        # calls inside a looped assignment: the failure can strike in any iteration
        assign("d", S(V("i"), ["call", V("<func>f"), [V("i")], [["k", C(6)]]]), loops=[["i", C(0), C(3)]]),
        assign("c", ["call", V("<func>f"), [S(Y, V("i"))], [["k", C(7)]]], loops=[["i", C(0), C(2)]]),
    ]


P1 = [fcall("a", Y, 5), assign("<state>y", S(V("a"), C(-1))), yield_(Y, comp="y", tid="p1")]


def snapshot_runtime(be, pnames):
    """Persistent values as run-time objects (deep copies) for starting a fresh stepper."""
    vals = {}
    if be.name == "interp":
        for n in pnames:
            if n in be.s.context:
                vals[n] = copy.deepcopy(be.s.context[n])
    else:
        for n in pnames:
            a = be._attr(n)
            if a and getattr(be.s, a, None) is not None:
                vals[n] = copy.deepcopy(getattr(be.s, a))
    return vals


def temp_keys(be, before):
    if be.name == "interp":
        return sorted(k for k in be.s.context if not progs.is_persistent(k))
    persistent_attrs = {ident[len("self."):] for ident in be.gmap.values()}
    return sorted(k for k in vars(be.s) if k not in before and k not in persistent_attrs)


def fault_runs(args):
    """All fault runs of one (method, input) on both back ends.  Returns (fault cases, continuation
    cases) ready for TLC."""
    from .common import use_repo
    use_repo()
    method, inp, nsteps = args
    m = stepper.resolve_fresh(method)
    pn = stepper.persistent_names(m)
    tm = stepper.tlc_method(m, pn)
    code = stepper.build_code(m)
    vals = {k: stepper.to_runtime(v) for k, v in inp}
    ctx = {k[len("<state>"):]: v for k, v in vals.items() if k.startswith("<state>")}
    bound = {"max_steps": nsteps, "t_end": -1}

    def fresh_backend(name, funcs):
        be = stepper.BACKENDS[name](code, funcs)
        be.set_up(vals["<t>"], vals["<dt>"], copy.deepcopy(ctx))
        return be

    # fault-free run: which tagged calls happen?
    log = []
    funcs, _ = stepper.make_funcs(None, log)
    be = fresh_backend("interp", funcs)
    stepper.run_events(be, pn, bound, CAP)
    sites = sorted({(t, n) for (name, t, n) in log if name == "<func>f"})
    fcases, ccases = [], []
    for tag, occ in sites:
        traces = []
        conts = []
        for bname in ("interp", "pycodegen"):
            funcs, state = stepper.make_funcs((tag, occ))
            try:
                be = fresh_backend(bname, funcs)
            except Exception as e:
                traces.append({"impl": bname, "events": [["setup-exc", type(e).__name__]]})
                continue
            before = set(vars(be.s))
            events, exc = stepper.run_events(be, pn, bound, CAP)
            if exc is not None and isinstance(exc, stepper.FaultInjected):
                events = events[:-1]            # drop the generic "exc" record, replace by the observation
                events.append(["userexc", exc is state["raised"], temp_keys(be, before), be.s.next_phase,
                               be.pers(pn)])
                # continuation on the same object and on a fresh one started in the observed state
                obs = snapshot_runtime(be, pn)
                phase = be.s.next_phase
                obs_tagged = [[n, stepper.norm(v)] for n, v in sorted(obs.items())]
                cont_bound = {"max_steps": 2, "t_end": -1}
                ev_cont, _ = stepper.run_events(be, pn, cont_bound, CAP)
                funcs2, _ = stepper.make_funcs(None)
                be2 = stepper.BACKENDS[bname](code, funcs2)
                be2.set_up(obs.get("<t>"), obs.get("<dt>"),
                           {k[len("<state>"):]: copy.deepcopy(v) for k, v in obs.items() if k.startswith("<state>")})
                be2.set_state({k: copy.deepcopy(v) for k, v in obs.items()}, phase)
                ev_fresh, _ = stepper.run_events(be2, pn, cont_bound, CAP)
                if all(v[0] in ("i", "b", "a") for _n, v in obs_tagged):
                    conts.append({"method": dict(tm, initial=phase), "input": obs_tagged, "bound": cont_bound,
                                  "cap": CAP, "fault": [0, 0], "mode": "events",
                                  "traces": [{"impl": bname + ":continued", "events": ev_cont},
                                             {"impl": bname + ":fresh", "events": ev_fresh}],
                                  "src": method, "after": [tag, occ]})
            traces.append({"impl": bname, "events": events})
        fcases.append({"method": tm, "input": inp, "bound": bound, "cap": CAP, "fault": [tag, occ], "mode": "events",
                       "traces": traces, "src": method})
        ccases.extend(conts)
    return fcases, ccases


def judge(chk, cases, what):
    tl = [{k: c[k] for k in ("method", "input", "bound", "cap", "fault", "mode", "traces")} for c in cases]
    out = tlc.judge_batch("Stepper", tl, chunk=300, tags=("BAD", "END"), chk=chk, jobs=12)
    bad = {t[1]: t[2:] for t in out["BAD"]}
    ended = {t[1]: t[2:] for t in out["END"]}
    missing = [k for k in range(len(cases)) if k not in bad and k not in ended]
    if missing:
        raise tlc.MachineryError("Stepper batch (%s): %d cases without verdict" % (what, len(missing)))
    return bad, ended


def run(chk):
    rng = random.Random(chk.seed)
    alpha = alphabet()
    progs_exh, _ = gen.tlc_programs(alpha, 3, chk=chk, minlen=1, typed=INPUTS)
    progs_exh = [p for p in progs_exh if any(c.get("f") == "<func>f" for c in p)]
    if chk.quick and len(progs_exh) > 600:
        progs_exh = rng.sample(progs_exh, 600)
    sim, _ = gen.tlc_programs(alpha, 8, simulate=150 if chk.quick else 3000, seed=chk.seed, chk=chk, minlen=4,
                              typed=INPUTS)
    sim = [p for p in sim if len(p) >= 4 and any(c.get("f") == "<func>f" for c in p)]
    rnd = [gen.random_program(rng, alpha, rng.randint(6, 10), typed=INPUTS) for _ in range(80 if chk.quick else 1500)]
    jobs = []
    for calls in progs_exh + sim + rnd:
        y = rng.choice([0, 1, 3])
        inp = [["<t>", ["i", 0]], ["<dt>", ["i", rng.choice([1, 2])]], ["<state>y", ["i", y]], [W, ["a", [1, 2, 3]]]]
        jobs.append((make_method(calls, p1=P1, next0=rng.choice(["p0", "p1"])), inp, rng.choice([1, 2, 3])))
    chk.stage("generate")
    with multiprocessing.Pool(NCPU) as pool:
        results = pool.map(fault_runs, jobs, chunksize=20)
    fcases = [c for r in results for c in r[0]]
    ccases = [c for r in results for c in r[1]]
    chk.stage("fault_runs")
    fbad, fend = judge(chk, fcases, "fault")
    cbad, cend = judge(chk, ccases, "continuation")
    chk.stage("tlc_judge")

    def text(c):
        return " | ".join("%s: %s" % (ph["name"], progs.show_prog(ph["calls"])) for ph in c["src"]["phases"])

    for k in sorted(fbad):
        impl, pos, clause, got = fbad[k]
        c = fcases[k]
        tr = [t for t in c["traces"] if t["impl"] == impl][0]["events"]
        chk.violation("C11:%s:%s" % (impl, clause if clause[0].isupper() else "events-before-fault(expected-%s-got-%s)" % (clause, got)),
                      "%s with call k=%d #%d raising: %s at event %d: %s; program [%s] input %s"
                      % (impl, c["fault"][0], c["fault"][1], clause, pos, tr[pos - 1] if pos - 1 < len(tr) else "<none>",
                         text(c), c["input"]),
                      {"method": c["src"], "input": c["input"], "bound": c["bound"], "fault": c["fault"]})
    for k in sorted(cbad):
        impl, pos, exp, got = cbad[k]
        c = ccases[k]
        chk.violation("C11:%s:Resumable(expected-%s-got-%s)" % (impl, exp, got),
                      "%s after fault %s: continuation differs from the reference at event %d; program [%s] state %s"
                      % (impl, c["after"], pos, text(c), c["input"]),
                      {"method": c["src"], "input": c["input"], "bound": c["bound"], "fault": c["after"], "cont": True})
    n_hit = sum(1 for v in fend.values() if v[0] == "accepted")
    chk.coverage.update({
        "evaluations": len(fcases) + len(ccases),
        "distinct_nontrivial": len({(text(c), tuple(c["fault"])) for c in fcases}),
        "rule": "fault points = every (tagged call site, occurrence) that happens in the fault-free run of each "
                "program (ProgGen depth <= 3 exhaustive%s, simulated depth 8, seeded 6-10 calls; 1-3 steps, two "
                "phases), injected on both back ends; each followed by a 2-step continuation on the same object "
                "and on a fresh stepper; distinct = distinct (program, fault point)"
                % (" (sampled)" if chk.quick else ""),
        "programs": len(jobs), "fault_cases": len(fcases), "continuation_cases": len(ccases),
        "fault_cases_accepted": n_hit,
        "fault_cases_out_of_fragment": sum(1 for v in fend.values() if v[0] == "dropped"),
        "continuations_accepted": sum(1 for v in cend.values() if v[0] == "accepted"),
        "traces_validated_against_impl": 2 * (len(fcases) + len(ccases)),
        "samples": sample([{"program": text(c), "fault": c["fault"], "interp": c["traces"][0]["events"][-1:]}
                           for c in fcases], 3),
    })
    chk.assumptions += ["only calls of <func>f(.., k=tag) made through call statements are fault points (one site "
                        "executes at most once per step, so (tag, occurrence) identifies a call independently of "
                        "the schedule)",
                        "allowed post-fault values follow the property's wording (pre-step value or any value the "
                        "written program assigns independently of the failed call); the stricter schedule-exact set "
                        "is not demanded"]


def replay(chk, rep):
    c = rep["case"]
    f, cc = fault_runs((c["method"], c["input"], c["bound"]["max_steps"] if not c.get("cont") else 3))
    shown = False
    for case in f:
        if case["fault"] == c["fault"] or c.get("cont"):
            for t in case["traces"]:
                print(t["impl"], case["fault"])
                for e in t["events"]:
                    print("   ", e)
            shown = True
    todo = [x for x in f if x["fault"] == c["fault"]] if not c.get("cont") else [x for x in cc if x["after"] == c["fault"]]
    if not todo:
        print("fault point no longer reached")
    hit = False
    for case in todo:
        path = tlc.write_cases([{k: case[k] for k in ("method", "input", "bound", "cap", "fault", "mode", "traces")}])
        res = tlc.run_tlc("Stepper", cfg="StepperStrict", env={"CASES": path}, workers=1)
        chk.add_tlc(res)
        if res.violated:
            tr = res.error_trace()
            print("TLC: rejected;", tr[-1][1] if tr else "")
            hit = True
    if hit:
        chk.violation(rep["signature"], "replayed fault case still rejected", c)
    elif todo:
        print("TLC: accepted")
    chk.coverage.update({"evaluations": max(1, len(todo)), "distinct_nontrivial": 2, "samples": [c["fault"]]})
