"""C09 -- inferred kinds agree with the values computed at run time.

Programs over the 'kinds' profile (powers, quotients, comparisons, min/max, subscripts, built-ins,
registered user functions, real/complex/array/user-type data) are built by the real CodeBuilder;
the real infer_kinds gives the table, the real interpreter runs one step on an instrumented store;
specs/KindValues.tla judges every stored value against the kind of its variable."""

import json
import random

import numpy as np

from . import exprs, gen, progs, tlc
from .c14 import kind_name
from .common import sample
from .gen import CMP, C, S, V, acall, assign

LEVEL = "model_checking"

U = "<state>u"
INPUTS = {"<t>", "<dt>", U}


def P(*xs):
    return ["prod", list(xs)]


def CALL(f, args, kw=None):
    return ["call", V(f), list(args), kw or []]


def alphabet():
    return [
        assign("x", P(V("<dt>"), C(2))),
        assign("c", P(V("x"), ["cx", 0, 1])),
        acall([U], "<func>f", [V("<t>"), V(U)]),
        assign("v", P(V(U), V("x"))),
        assign("n", CALL("<builtin>norm_2", [V(U)])),
        assign("ra", CALL("<builtin>array", [C(3)])),
        assign("ra", P(V("i"), V("<dt>")), sub=[V("i")], loops=[["i", C(0), C(3)]]),
        assign("y", ["sub", V("ra"), [C(1)]]),
        assign("b", CMP("<", V("x"), C(1))),
        assign("p", ["pow", V("x"), C(2)]),
        assign("p2", ["pow", S(V("x"), C(-1)), ["quot", C(1), C(2)]]),       # root of a negative real
        assign("q", ["quot", V("x"), C(3)]),
        assign("m", ["min", [V("x"), C(1)]]),
        assign("d", CALL("<builtin>dot_product", [V("ra"), V("ra")])),
        assign("l", CALL("<builtin>len", [V("ra")])),
        assign("nn", CALL("<builtin>isnan", [V("x")])),
        assign("na", CALL("<builtin>isnan", [V("ra")])),
        assign("ea", CALL("<builtin>elementwise_abs", [V("ra")])),
        assign("ec", CALL("<builtin>elementwise_abs", [V("c")])),
        assign("ca", P(V("ra"), V("c"))),
        assign("k", V("i"), loops=[["i", C(0), C(3)]]),
        assign("z", P(V("c"), V("c"))),
        assign("x", S(V("x"), V("c"))),                                      # real variable widened to complex
        assign("n1", CALL("<builtin>norm_1", [V("ra")])),
        assign("ni", CALL("<builtin>norm_inf", [V(U)])),
        assign("tr", CALL("<builtin>transpose", [V("ra"), C(1)])),
        assign("w", S(V(U), P(V("<dt>"), V("v")))),
        assign("du", CALL("<builtin>dot_product", [V(U), V(U)])),
        assign("eu", CALL("<builtin>elementwise_abs", [V(U)])),
        assign("lu", CALL("<builtin>len", [V(U)])),
        # neutral and absorbing constants (zero coefficients as Runge-Kutta tableaux produce them)
        assign("zy", S(P(C(0), V("ra")), V("<dt>"))),
        assign("zz", S(P(C(0), V("c")), V("<t>"))),
        assign("zw", S(V("<t>"), ["cx", 0, 0])),
        assign("zu", S(P(C(0), V(U)), V("x"))),
        # keyword arguments written in another order than the signature (kinds are declared per argument)
        assign("trk", CALL("<builtin>transpose", [], [["a_cols", C(1)], ["a", V("ca")]])),
        assign("dk", CALL("<builtin>dot_product", [], [["y", V("ca")], ["x", V("ra")]])),
        assign("nk", CALL("<builtin>norm_2", [], [["x", V("ca")]])),
        assign("mk", CALL("<builtin>matmul", [V("ca")], [["b_cols", C(1)], ["a_cols", C(1)], ["b", V("ra")]])),
    ]


class UT(np.ndarray):
    """User-type vector: an ndarray subclass that survives arithmetic, so the value class of a
    result can be observed."""
    ident = "u"


def value_class(v):
    if isinstance(v, UT):
        return "ut:" + v.ident
    if isinstance(v, (bool, np.bool_)):
        return "bool"
    if isinstance(v, (int, np.integer)):
        return "int"
    if isinstance(v, (float, np.floating)):
        return "real"
    if isinstance(v, (complex, np.complexfloating)):
        return "complex"
    if isinstance(v, np.ndarray):
        if v.ndim == 0:
            return value_class(v.item())
        if np.iscomplexobj(v):
            return "carray"
        if v.dtype == bool:
            return "other:bool-array"
        return "rarray"
    return "other:" + type(v).__name__


class ClassStore(dict):
    def __init__(self, *a):
        super().__init__(*a)
        self.events = []

    def __setitem__(self, k, v):
        self.events.append([k, value_class(v)])
        super().__setitem__(k, v)


def kind_table_name(k):
    n = kind_name(k)
    return n.replace("UserType_", "ut:")


def observe(calls, order_seed=0, inputs="real"):
    import contextlib
    import io
    from dagrt.data import infer_kinds
    from dagrt.exec_numpy import NumpyInterpreter
    from dagrt.function_registry import base_function_registry, register_ode_rhs
    from dagrt.language import DAGCode
    cb, _ = progs.replay_calls("p0", calls)
    code = DAGCode.from_phases_list([cb.as_execution_phase("p0")], "p0")
    freg = register_ode_rhs(base_function_registry, "u", identifier="<func>f")
    case = {"table": [], "stores": [], "assigned": [], "err": "", "calls": calls, "order_seed": order_seed, "inputs": inputs}
    icode = code
    if order_seed:
        # present the statements to kind inference in another order (phases hold them as unordered sets)
        import random as _r
        from dagrt.language import ExecutionPhase
        stmts = list(cb.statements)
        _r.Random(order_seed).shuffle(stmts)
        icode = DAGCode({"p0": ExecutionPhase("p0", "p0", stmts)}, "p0")
    try:
        with contextlib.redirect_stdout(io.StringIO()):
            tbl = infer_kinds(icode, function_registry=freg)
    except Exception as e:
        case["err"] = "inference:" + type(e).__name__
        return case
    table = dict(tbl.global_table)
    table.update(tbl.per_phase_table.get("p0", {}))
    case["table"] = [[k, kind_table_name(v)] for k, v in sorted(table.items())]
    assigned = set()
    for s in cb.statements:
        assigned.update(w for w in s.get_written_variables() if not w.startswith("<cond>"))
    case["assigned"] = sorted(assigned)

    def f(t, u):
        return (u * (0.5 if inputs == "real" else 0.5j) + t).view(UT)

    it = NumpyInterpreter(code, {"<func>f": f})
    st = ClassStore()
    it.context = st
    it.eval_mapper.context = st
    it.set_up(t_start=0.5, dt_start=0.25, context={"u": (np.array([1.0, -2.0]) if inputs == "real" else np.array([1.0 + 1j, -2j])).view(UT)})
    st.events = []
    try:
        with np.errstate(all="ignore"):
            for _ev in it.run(max_steps=1):
                pass
    except Exception as e:
        case["err"] = "run:" + type(e).__name__
    # values mutated in place (element stores) never pass through __setitem__: look at what is left
    case["stores"] = st.events
    return case


def observe_two_phases(calls_a, calls_b, order_a=None, order_b=None):
    """Two phases inserted in non-alphabetical order ('zeta' first, then 'alpha'), each with its own temporaries: one case
    per phase (global table + that phase's table against the values stored while that phase ran)."""
    import contextlib
    import io
    from dagrt.data import infer_kinds
    from dagrt.exec_numpy import NumpyInterpreter
    from dagrt.function_registry import base_function_registry, register_ode_rhs
    from dagrt.language import DAGCode
    cba, _ = progs.replay_calls("zeta", calls_a)
    cbb, _ = progs.replay_calls("alpha", calls_b)
    if order_a is None and order_b is None:
        code = DAGCode.from_phases_list([cba.as_execution_phase("alpha"), cbb.as_execution_phase("zeta")], "zeta")
    else:
        # the statements of each phase listed in a given order (a phase holds them "in no particular order")
        from dagrt.language import ExecutionPhase
        sa, sb = list(cba.statements), list(cbb.statements)
        code = DAGCode.from_phases_list([ExecutionPhase("zeta", "alpha", [sa[i] for i in (order_a or range(len(sa)))]),
                                         ExecutionPhase("alpha", "zeta", [sb[i] for i in (order_b or range(len(sb)))])], "zeta")
    freg = register_ode_rhs(base_function_registry, "u", identifier="<func>f")
    out = []
    try:
        with contextlib.redirect_stdout(io.StringIO()):
            tbl = infer_kinds(code, function_registry=freg)
    except Exception as e:
        return [{"table": [], "stores": [], "assigned": [], "err": "inference:" + type(e).__name__, "calls": calls_a,
                 "calls_b": calls_b, "order_seed": 0, "inputs": "real"}]

    def f(t, u):
        return (u * 0.5 + t).view(UT)

    it = NumpyInterpreter(code, {"<func>f": f})
    st = ClassStore()
    it.context = st
    it.eval_mapper.context = st
    it.set_up(t_start=0.5, dt_start=0.25, context={"u": np.array([1.0, -2.0]).view(UT)})
    st.events = []
    per_phase = {"zeta": [], "alpha": []}
    err = ""
    try:
        with np.errstate(all="ignore"):
            for ev in it.run(max_steps=3):
                if isinstance(ev, it.StepCompleted):
                    per_phase[ev.current_state] += st.events
                    st.events = []
    except Exception as e:
        err = "run:" + type(e).__name__
    for ph, cb, calls in (("zeta", cba, calls_a), ("alpha", cbb, calls_b)):
        table = dict(tbl.global_table)
        table.update(tbl.per_phase_table.get(ph, {}))
        assigned = set()
        for s_ in cb.statements:
            assigned.update(w for w in s_.get_written_variables() if not w.startswith("<cond>"))
        out.append({"table": [[k, kind_table_name(v)] for k, v in sorted(table.items())], "stores": per_phase[ph],
                    "assigned": sorted(assigned), "err": err, "calls": calls, "calls_b": calls_b if ph == "zeta" else calls_a,
                    "phase": ph, "order_seed": 0, "inputs": "real"})
    return out


def run(chk):
    rng = random.Random(chk.seed)
    alpha = alphabet()
    programs, _ = gen.tlc_programs(alpha, 2 if chk.quick else 3, chk=chk, minlen=1, typed=INPUTS)
    sim, _ = gen.tlc_programs(alpha, 8, simulate=400 if chk.quick else 8000, seed=chk.seed, chk=chk, minlen=3,
                              typed=INPUTS)
    programs += [p for p in sim if len(p) >= 3]
    programs += [gen.random_program(rng, alpha, rng.randint(4, 10), maxnest=0, typed=INPUTS)
                 for _ in range(300 if chk.quick else 6000)]
    cases = [observe(calls) for calls in programs]
    # second input point: complex data in the user-type state (only programs that touch the user type can differ)
    cases += [observe(calls, inputs="complex") for calls in programs if U in json.dumps(calls)]
    # two-phase methods (phases inserted in non-alphabetical order, temporaries with phase-specific kinds)
    cand = [p for p in programs if len(p) >= 2]
    for _ in range(150 if chk.quick else 3000):
        cases += observe_two_phases(rng.choice(cand), rng.choice(cand))
    # every built-in call written with keyword arguments in another order than the signature, after a prelude that
    # defines real and complex scalars and arrays
    prelude = [alpha[0], alpha[1], alpha[5], alpha[6], assign("ca", P(V("ra"), V("c")))]
    for st in alpha:
        if st["op"] == "assign" and ((st["rhs"][0] == "call" and st["rhs"][3]) or st["lhs"] in ("zy", "zz", "zw", "zu")):
            cases.append(observe(prelude + [st]))
    # a persistent variable refined in ONE phase and read in the other (both insertion orders; run: zeta, alpha, zeta)
    for reader_first in (True, False):
        for wid in ([assign("cc", P(V("<dt>"), ["cx", 0, 1])), assign("<p>s", S(V("<p>s"), V("cc")))],
                    [assign("cc", P(V("<dt>"), ["cx", 0, 1])), assign("c2", V("cc")), assign("<p>s", P(V("<p>s"), V("c2")))]):
            reader = [assign("<p>o", P(V("<p>s"), C(2))), assign("<p>s", S(V("<dt>"), C(0)))]
            init = [assign("<p>s", S(V("<dt>"), C(0)))]
            import itertools
            a, b = (init + reader, wid) if reader_first else (init + wid, reader)    # which phase comes first in the mapping
            for oa in itertools.permutations(range(len(a))):
                for ob in itertools.permutations(range(len(b))):
                    cases += observe_two_phases(a, b, list(oa), list(ob))
    # widening family: a variable whose kind is widened (real -> complex, scalar -> array, scalar -> user type)
    # with a copy chain hanging off it, presented to inference in many statement orders
    x0 = assign("x", P(V("<dt>"), C(2)))
    chain = [assign("x1", V("x")), assign("x2", V("x1")), assign("x3", P(V("x2"), V("<dt>")))]
    wid = [[assign("c", P(V("<dt>"), ["cx", 0, 1])), assign("x", S(V("x"), V("c")))],
           [assign("ra", CALL("<builtin>array", [C(3)])), assign("ra", P(V("i"), V("<dt>")), sub=[V("i")], loops=[["i", C(0), C(3)]]),
            assign("x", P(V("x"), V("ra")))],
           [acall([U], "<func>f", [V("<t>"), V(U)]), assign("x", P(V("x"), V(U)))]]
    for w in wid:
        prog = [x0] + w + chain
        for sd in range(1, 25 if chk.quick else 121):
            cases.append(observe(prog, order_seed=sd))
    chk.stage("observe")
    judged = [c for c in cases if not c["err"].startswith("inference")]
    tl = [{k: c[k] for k in ("table", "stores", "assigned")} for c in judged]
    out = tlc.judge_batch("KindValues", tl, chunk=2500, chk=chk)
    chk.stage("tlc_judge")
    seen = set()
    for t in out["BAD"]:
        c = judged[t[1]]
        clause, pos = t[2], t[3]
        if clause == "KindAdmitsValue":
            var, cls = c["stores"][pos - 1]
            kind = dict(map(tuple, c["table"])).get(var, "")
            stmt = [progs.show_call(x) for x in c["calls"] if x.get("lhs") == var or (isinstance(x.get("lhs"), list) and var in x["lhs"])]
            classes = {cl for v2, cl in c["stores"] if v2 == var}
            pred = "variable-assigned-values-of-two-classes" if len(classes) > 1 and any(
                True for cl in classes if cl != cls) and _admitted_somewhere(kind, classes) else _construct(c, var)
            sig = "C09:KindAdmitsValue:kind=%s:value=%s:%s" % (kind, cls, pred)
            what = "variable %s has kind %s but the interpreter stored a %s value; assignments: %s" % (var, kind, cls, stmt)
        else:
            missing = [v for v in c["assigned"] if dict(map(tuple, c["table"])).get(v, "") in ("", "None")]
            sig = "C09:EveryAssignedHasKind:%s" % ",".join(_construct(c, v) for v in missing[:1])
            what = "assigned variables without a kind: %s in [%s]" % (missing, progs.show_prog(c["calls"]))
        if (sig, t[1]) in seen:
            continue
        seen.add((sig, t[1]))
        chk.violation(sig, what + (" (complex data in the user-type state)" if c.get("inputs") == "complex" else ""),
                      {"calls": c["calls"], "order_seed": c.get("order_seed", 0), "inputs": c.get("inputs", "real"),
                       "calls_b": c.get("calls_b"), "phase": c.get("phase")})
    chk.coverage.update({
        "evaluations": len(cases),
        "distinct_nontrivial": sum(1 for c in judged if len(c["stores"]) >= 2),
        "rule": "programs = every ProgGen behaviour of depth <= %d over the %d-call 'kinds' alphabet (typed) + simulated "
                "depth-8 + seeded 4-10 call programs; each: real infer_kinds, one interpreter step with real/complex/"
                "array/user-type data on a recording store; non-trivial = inference succeeded and >= 2 values stored"
                % (2 if chk.quick else 3, len(alpha)),
        "exhaustive": True, "exhaustive_scope": "all call sequences up to the depth bound over the alphabet",
        "inference_failed": len(cases) - len(judged), "store_events": sum(len(c["stores"]) for c in judged),
        "run_errors": sum(1 for c in judged if c["err"]),
        "traces_validated_against_impl": len(judged),
        "samples": sample([{"program": progs.show_prog(c["calls"]), "table": c["table"], "stores": c["stores"]} for c in judged
                           if len(c["stores"]) >= 2], 3),
    })
    chk.assumptions += ["two input points (t=0.5, dt=0.25, u=[1,-2] real; u=[1+1j,-2j] with a complex right-hand side); user-type values are tagged ndarray subclasses",
                        "Admits is lenient: ints and bools are admitted by real scalars, real values by complex kinds"]


def _admitted_somewhere(kind, classes):
    """The kind fits at least one of the classes stored in the variable (so it is the join of several uses)."""
    table = {"Boolean": {"bool"}, "Integer": {"int", "bool"}, "Scalar_r": {"int", "real", "bool"},
             "Scalar_c": {"int", "real", "complex", "bool"}, "Array_r": {"rarray"}, "Array_c": {"rarray", "carray"}}
    return bool(table.get(kind, {kind}) & set(classes))


def _construct(case, var):
    """Which construct assigns var (diagnosis for signatures)."""
    for x in case["calls"]:
        lhs = x.get("lhs")
        if lhs == var or (isinstance(lhs, list) and var in lhs):
            if x["op"] == "acall":
                return x["f"]
            r = x["rhs"]
            if r[0] == "call":
                a = r[2][0] if r[2] else ["c", 0]
                return "%s(%s)" % (r[1][1], "array" if a == ["v", "ra"] else ("usertype" if a == ["v", U] else "scalar"))
            return r[0]
    return "?"


def replay(chk, rep):
    rc = rep["case"]
    if rc.get("phase"):
        a, b = (rc["calls"], rc["calls_b"]) if rc["phase"] == "zeta" else (rc["calls_b"], rc["calls"])
        c = [x for x in observe_two_phases(a, b) if x.get("phase", rc["phase"]) == rc["phase"]][0]
    else:
        c = observe(rc["calls"], rc.get("order_seed", 0), rc.get("inputs", "real"))
    print(progs.show_prog(c["calls"]))
    print("table :", c["table"])
    print("stores:", c["stores"], c["err"])
    tl = {k: c[k] for k in ("table", "stores", "assigned")}
    res = tlc.run_tlc("KindValues", cfg="KindValuesStrict", env={"CASES": tlc.write_cases([tl])}, workers=1)
    chk.add_tlc(res)
    if res.violated:
        print("TLC: %s violated" % res.violated)
        chk.violation(rep["signature"], "replayed case still violates %s" % res.violated, rep["case"])
    else:
        print("TLC: accepted")
    chk.coverage.update({"evaluations": 1, "distinct_nontrivial": 2, "samples": [progs.show_prog(c["calls"])]})
