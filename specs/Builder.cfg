CONSTANTS
  Depth = 4
  Vars = {"a", "b", "s"}
  PersVars = {"s"}
  WAR = TRUE
INIT Init
NEXT Next
CHECK_DEADLOCK FALSE
INVARIANT ScheduleIndependence
INVARIANT FenceOrder
INVARIANT EdgesBackwards
