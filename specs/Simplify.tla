------------------------------ MODULE Simplify ------------------------------
(***************************************************************************)
(* Contract for C06: simplification of a structured program never changes  *)
(* which leaf statements run, or their order, under any truth assignment   *)
(* to the condition flags, and it never fails.                             *)
(*                                                                         *)
(* Each case of the batch is a tree (a behaviour of TreeGen, or a tree     *)
(* produced by the real lowering) together with what the REAL simplify_ast *)
(* returned for it (harness/c06.py).  TLC quantifies over the valuations.  *)
(***************************************************************************)
EXTENDS Tree, TLC, Json, IOUtils

Cases == JsonDeserialize(IOEnv.CASES)

VARIABLES cid, val

vars == <<cid, val>>

AllFlags(c) == Flags(Cases[c].in) \cup (IF Cases[c].err = "" THEN Flags(Cases[c].out) ELSE {})

Init == cid \in DOMAIN Cases /\ val = <<>>

\* one step: pick any truth assignment to the flags of the case
Choose == /\ val = <<>>
          /\ val' \in [AllFlags(cid) -> BOOLEAN]
          /\ val' # <<>>
          /\ UNCHANGED cid

Next == Choose

NoErrorStrict == Cases[cid].err = ""

SameLeavesStrict ==
    (Cases[cid].err = "" /\ (val # <<>> \/ AllFlags(cid) = {})) =>
        LeafIds(Run(Cases[cid].out, val, <<>>)) = LeafIds(Run(Cases[cid].in, val, <<>>))

NoError    == NoErrorStrict \/ val # <<>> \/ PrintT(<<"BAD", cid, "NoError">>)
SameLeaves == SameLeavesStrict \/ PrintT(<<"BAD", cid, "SameLeaves">>)
=============================================================================
