INIT Init
NEXT Next
CHECK_DEADLOCK FALSE
INVARIANT ScheduleIndependence
INVARIANT FenceOrder
INVARIANT FreshNames
