------------------------------ MODULE StmtGen ------------------------------
(***************************************************************************)
(* Generator for C08: the grammar of single statements as a product of     *)
(* independent feature dimensions (kind x right-hand-side form x assignee  *)
(* form x loop nest x guard form x keyword form x time form).  Every       *)
(* well-formed combination is one initial state and is dumped once; the    *)
(* harness instantiates it with the variable pool of harness/c08.py and    *)
(* replays it into the real CodeBuilder.  The point of the product is that *)
(* a case distinction in the code on ANY combination of features (constant *)
(* right-hand side AND subscripted assignee, keyword argument AND guard,   *)
(* ...) meets an input that exercises it.                                  *)
(***************************************************************************)
EXTENDS Naturals, Sequences, TLC, Json

ExprForms == {"const", "var", "sum", "subconst", "subvar", "subloop", "ifexpr", "min", "and", "or",
              "call", "callkw", "pow", "quot", "neg", "statevar", "pvar", "cmp", "ifnested", "ifrepeat"}
LhsForms  == {"plain", "subconst", "subvar", "subloop", "subsum", "pvarsub", "statevar"}
LoopForms == {"none", "zero_to_var", "var_to_var", "two_dependent", "literal_then_var", "three_mixed"}
GuardForms == {"none", "cmp", "and", "statecmp"}
KwForms   == {"none", "var", "sum", "sub", "ifexpr"}
TimeForms == {"t", "t_plus_dt", "var"}
Kinds     == {"assign", "acall0", "acall1", "acall2", "yield", "fail", "switch", "raise", "restart"}

VARIABLE s
UsesLoopVar(x) == x.rhs = "subloop" \/ x.lhs \in {"subloop", "subsum"}

WellFormed(x) ==
    /\ UsesLoopVar(x) => x.loops # "none"
    /\ x.kind # "assign" => x.lhs = "plain" /\ x.loops = "none"
    /\ x.kind \notin {"acall0", "acall1", "acall2"} => x.kw = "none"
    /\ x.kind # "yield" => x.time = "t"
    /\ x.kind \in {"fail", "switch", "raise", "restart"} => x.rhs = "const"
    \* a subscripted assignee needs a loop in the builder unless the right-hand side is not a bare call
    /\ x.kind = "assign" /\ x.rhs \in {"call", "callkw"} /\ x.lhs # "plain" => x.loops # "none"

Init == /\ s \in [kind: Kinds, rhs: ExprForms, lhs: LhsForms, loops: LoopForms, guard: GuardForms,
                  kw: KwForms, time: TimeForms]
        /\ WellFormed(s)
Next == UNCHANGED s
Dump == PrintT("GEN " \o ToJson(s))
=============================================================================
