----------------------------- MODULE SchedGroups -----------------------------
(***************************************************************************)
(* Dynamic part of C16: the fused phase (statements exported from the real *)
(* fuse_two_dags) is executed in every order its dependency edges allow    *)
(* and under every guard valuation; each method's persistent variables     *)
(* must end with the terms that method's statements produce on their own.  *)
(* Cases[cid].groups[g] lists the statement indices of method g.           *)
(***************************************************************************)
EXTENDS Sched

Groups == Cases[cid].groups
InGroup(g, i) == \E k \in DOMAIN Groups[g] : Groups[g][k] = i

RECURSIVE RefG(_, _, _, _)
\* the statements of group g alone, in written order
RefG(g, i, st, ev) ==
    IF i > N THEN [st |-> st, ev |-> ev, h |-> FALSE]
    ELSE IF InGroup(g, i) /\ Holds(i, st)
         THEN LET r == Effect(i, st, ev) IN IF r.h THEN r ELSE RefG(g, i + 1, r.st, r.ev)
         ELSE RefG(g, i + 1, st, ev)

WrittenBy(g) == {v \in Persist : \E i \in 1..N : InGroup(g, i) /\ \E k \in DOMAIN Prog[i].twrites : Prog[i].twrites[k] = v}

NonInterferenceStrict ==
    Terminal => \A g \in DOMAIN Groups : \A v \in WrittenBy(g) : store[v] = RefG(g, 1, InitStore, <<>>).st[v]

NonInterference == NonInterferenceStrict \/ PrintT(<<"BAD", cid, "NonInterference">>)
=============================================================================
