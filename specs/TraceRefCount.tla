--------------------------- MODULE TraceRefCount ---------------------------
(***************************************************************************)
(* Trace validation for C12: binds the skeleton extractor and the heap     *)
(* model to the compiled artefact.  The harness inserts a marker           *)
(* (write statement) after every allocation check, release and pointer     *)
(* assignment IN THE GENERATED TEXT, compiles and runs the module; the     *)
(* printed marker sequence of a real run must be a behaviour of the        *)
(* extracted skeleton under the heap semantics of RefCount: every logged   *)
(* operation is matched against the next memory instruction executed,      *)
(* branch outcomes are not logged -- TLC infers them.  A run that cannot   *)
(* be matched means the extractor or the model misrepresents the code.     *)
(***************************************************************************)
EXTENDS RefCount

VARIABLE tpos
tvars == <<vars, tpos>>

Log == Cases[cid].log              \* sequence of <<op, a, b>>
TotalRuns == Cases[cid].nruns

Logged(i) == i[1] \in {"alloc", "deinit", "passign"}
Matches(i) ==
    /\ tpos <= Len(Log)
    /\ Log[tpos][1] = i[1] /\ Log[tpos][2] = i[2]
    /\ (i[1] = "passign" => Log[tpos][3] = i[3])

TInit == Init /\ tpos = 1

TStep ==
    /\ Step
    /\ IF Logged(Ins[pc]) THEN Matches(Ins[pc]) /\ tpos' = tpos + 1 ELSE tpos' = tpos

TNext ==
    \/ (Start /\ tpos' = tpos)
    \/ (Run /\ nruns < TotalRuns /\ tpos' = tpos)
    \/ (Shutdown /\ nruns = TotalRuns /\ tpos' = tpos)
    \/ TStep

Accepted == stage = "done" /\ tpos = Len(Log) + 1 /\ err = ""
Accept == ~Accepted \/ PrintT(<<"ACC", cid>>)
\* an error of the heap model on a path that matches a sanitizer-clean real run would mean the model is too strict
\* the trace bounds the exploration: no more allocations than logged events (plus those of initialize)
TBound == nb <= Len(Log) + 8
ModelErrorOnMatchedPath == err = "" \/ PrintT(<<"MERR", cid, err, tpos>>)
=============================================================================
