INIT Init
NEXT Next
CHECK_DEADLOCK FALSE
INVARIANT IdsUniqueStrict
INVARIANT CompleteStrict
INVARIANT DepsIntactStrict
INVARIANT SameShapeStrict
INVARIANT RenamingFunctionStrict
INVARIANT AsAskedStrict
INVARIANT InputsUnchangedStrict
