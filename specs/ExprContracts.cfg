INIT Init
NEXT Next
CHECK_DEADLOCK FALSE
INVARIANT ParseOK
INVARIANT SamePrint
INVARIANT SameVars
INVARIANT SameValue
INVARIANT AssignedOnce
INVARIANT NoFreeHoisted
INVARIANT HoistValue
INVARIANT HoistNoError
INVARIANT MatchDocumented
INVARIANT OnlyFree
INVARIANT AgreesWithPre
INVARIANT GenuineMatch
