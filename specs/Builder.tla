------------------------------- MODULE Builder -------------------------------
(***************************************************************************)
(* As-coded model of CodeBuilder._add_statement (language.py 1037-1105)    *)
(* composed with the schedule contract of Sched.tla -- design level of     *)
(* C02.  A behaviour first BUILDS a phase by builder calls over an         *)
(* abstract alphabet (a call = the set of variables it reads, the set it   *)
(* writes, whether it is an assignment, a yield or a halting statement),   *)
(* using the builder's book-keeping                                        *)
(*     writer[v]   last statement that wrote v                             *)
(*     readers[v]  statements that read v since it was last written        *)
(*     seen        names seen so far                                       *)
(*     the execution-state token EXEC read by every statement and written  *)
(*     by every non-assignment, which also reads all persistent names seen *)
(* and then EXECUTES it in every order the recorded edges allow, under     *)
(* every valuation of the guard flags, with Herbrand values.  The          *)
(* invariant is the contract: every admissible schedule is                 *)
(* indistinguishable from written order.  The harness replays the same     *)
(* abstract programs into the real builder and compares the edges          *)
(* (drift).                                                                *)
(***************************************************************************)
EXTENDS Naturals, Sequences, FiniteSets, TLC, Json

CONSTANTS Depth,          \* builder calls per program
          Vars,           \* ordinary variable names
          PersVars,       \* persistent names (subset of Vars)
          WAR             \* TRUE: write-after-read edges are recorded (as coded); FALSE: a builder without them
                          \* (used to demonstrate that the contract notices their absence)

EXEC == "<exec>"

\* the abstract alphabet: <<kind, reads, writes>>; kind: "assign" | "yield" | "halt" | "if"
Alphabet ==
    {<<"assign", R, {w}>> : R \in {{}, {"a"}, {"s"}, {"a", "s"}, {"b"}}, w \in Vars}
    \cup {<<"yield", {"s"}, {}>>, <<"yield", {"a"}, {}>>, <<"halt", {}, {}>>}
    \cup {<<"if", {"a"}, {}>>, <<"if", {"s"}, {}>>}

VARIABLES stmts,      \* built statements: [kind, reads, writes, deps, guard (seq of <<flagstmt, polarity>>)]
          writer, readers, seen, condStack, lastIf, mode,
          \* execution part (as in Sched)
          truth, done, store, events, halted, fenceOK

vars == <<stmts, writer, readers, seen, condStack, lastIf, mode, truth, done, store, events, halted, fenceOK>>

N == Len(stmts)
FlagOf(k) == "<cond>" \o ToString(k)             \* the flag assigned by statement k

Init ==
    /\ stmts = <<>> /\ writer = <<>> /\ readers = <<>> /\ seen = {EXEC}
    /\ condStack = <<>> /\ lastIf = <<>> /\ mode = "build"
    /\ truth = <<>> /\ done = {} /\ store = <<>> /\ events = <<>> /\ halted = FALSE /\ fenceOK = TRUE

W(v) == IF v \in DOMAIN writer THEN {writer[v]} ELSE {}
Rd(v) == IF v \in DOMAIN readers THEN readers[v] ELSE {}
GuardVars == {FlagOf(condStack[k][1]) : k \in DOMAIN condStack}

\* _add_statement
Add(kind, R, Wr) ==
    LET id == N + 1
        nonassign == kind \in {"yield", "halt"}
        reads0 == R \cup {EXEC} \cup GuardVars
        reads == IF nonassign THEN reads0 \cup (seen \cap PersVars) ELSE reads0
        writes == IF nonassign THEN Wr \cup {EXEC} ELSE Wr
        deps == (UNION {W(v) : v \in reads \cup writes}) \cup (IF WAR THEN UNION {Rd(v) : v \in writes} ELSE {})
    IN /\ stmts' = Append(stmts, [kind |-> kind, reads |-> R, writes |-> Wr, deps |-> deps, guard |-> condStack])
       /\ writer' = [v \in DOMAIN writer \cup writes |-> IF v \in writes THEN id ELSE writer[v]]
       /\ readers' = [v \in DOMAIN readers \cup reads \cup writes |->
                         IF v \in writes THEN {}
                         ELSE IF v \in reads THEN Rd(v) \cup {id} ELSE Rd(v)]
       /\ seen' = seen \cup reads \cup writes

Plain(c) ==
    /\ mode = "build" /\ N + Len(condStack) < Depth /\ c[1] # "if"
    /\ Add(c[1], c[2], c[3])
    /\ UNCHANGED <<condStack, lastIf, mode, truth, done, store, events, halted, fenceOK>>

\* if_: a flag assignment (a fresh single-assignment variable), then the block
OpenIf(c) ==
    /\ mode = "build" /\ c[1] = "if" /\ N + Len(condStack) + 2 <= Depth /\ Len(condStack) < 2
    /\ Add("flag", c[2], {FlagOf(N + 1)})
    /\ condStack' = Append(condStack, <<N + 1, TRUE>>)
    /\ UNCHANGED <<lastIf, mode, truth, done, store, events, halted, fenceOK>>

Close ==
    /\ mode = "build" /\ condStack # <<>>
    /\ LET top == condStack[Len(condStack)] IN
         lastIf' = IF top[2] THEN <<top[1]>> ELSE <<>>        \* leaving an else_ clears it
    /\ condStack' = SubSeq(condStack, 1, Len(condStack) - 1)
    /\ UNCHANGED <<stmts, writer, readers, seen, mode, truth, done, store, events, halted, fenceOK>>

OpenElse ==
    /\ mode = "build" /\ lastIf # <<>> /\ N + Len(condStack) + 1 <= Depth /\ Len(condStack) < 2
    /\ condStack' = Append(condStack, <<lastIf[1], FALSE>>)
    /\ UNCHANGED <<stmts, writer, readers, seen, lastIf, mode, truth, done, store, events, halted, fenceOK>>

FlagStmts == {k \in 1..N : stmts[k].kind = "flag"}
AllNames == Vars \cup {FlagOf(k) : k \in FlagStmts}

\* stop building: fix a guard valuation and start executing
Freeze ==
    /\ mode = "build" /\ condStack = <<>> /\ N >= 2
    /\ mode' = "exec"
    /\ truth' \in [FlagStmts -> BOOLEAN]
    /\ store' = [v \in AllNames |-> <<"init", v>>]
    /\ UNCHANGED <<stmts, writer, readers, seen, condStack, lastIf, done, events, halted, fenceOK>>

----------------------------------------------------------------------------
Holds(i, st) == \A k \in DOMAIN stmts[i].guard :
                   (st[FlagOf(stmts[i].guard[k][1])][1] = "flag" /\ st[FlagOf(stmts[i].guard[k][1])][2]) = stmts[i].guard[k][2]
AllReads(i) == stmts[i].reads
ReadTerms(i, st) == [v \in AllReads(i) |-> st[v]]
Effect(i, st, ev) ==
    CASE stmts[i].kind = "halt"  -> [st |-> st, ev |-> Append(ev, <<"halt", i>>), h |-> TRUE]
      [] stmts[i].kind = "yield" -> [st |-> st, ev |-> Append(ev, <<"yield", i, ReadTerms(i, st)>>), h |-> FALSE]
      [] stmts[i].kind = "flag"  -> [st |-> [st EXCEPT ![FlagOf(i)] = <<"flag", truth[i], i, ReadTerms(i, st)>>], ev |-> ev, h |-> FALSE]
      [] OTHER -> [st |-> [v \in DOMAIN st |-> IF v \in stmts[i].writes THEN <<"val", i, ReadTerms(i, st)>> ELSE st[v]],
                   ev |-> ev, h |-> FALSE]

Exec(i) ==
    /\ mode = "exec" /\ ~halted /\ i \notin done /\ stmts[i].deps \subseteq done
    /\ done' = done \cup {i}
    /\ fenceOK' = (fenceOK /\ (stmts[i].kind \in {"yield", "halt"} =>
                      \A j \in 1..(i - 1) : (stmts[j].writes \cap PersVars # {}) => j \in done))
    /\ IF Holds(i, store)
       THEN LET r == Effect(i, store, events) IN store' = r.st /\ events' = r.ev /\ halted' = r.h
       ELSE UNCHANGED <<store, events, halted>>
    /\ UNCHANGED <<stmts, writer, readers, seen, condStack, lastIf, mode, truth>>

Next ==
    \/ \E c \in Alphabet : Plain(c) \/ OpenIf(c)
    \/ Close \/ OpenElse \/ Freeze
    \/ \E i \in 1..N : Exec(i)

Spec == Init /\ [][Next]_vars

RECURSIVE Ref(_, _, _)
Ref(i, st, ev) ==
    IF i > N THEN [st |-> st, ev |-> ev, h |-> FALSE]
    ELSE IF Holds(i, st)
         THEN LET r == Effect(i, st, ev) IN IF r.h THEN r ELSE Ref(i + 1, r.st, r.ev)
         ELSE Ref(i + 1, st, ev)

Terminal == mode = "exec" /\ (halted \/ done = 1..N)
ScheduleIndependence ==
    Terminal =>
        LET r == Ref(1, [v \in AllNames |-> <<"init", v>>], <<>>) IN
          /\ r.h = halted /\ r.ev = events
          /\ IF halted THEN \A v \in PersVars : r.st[v] = store[v] ELSE r.st = store
FenceOrder == fenceOK
\* the recorded graph is acyclic and only points backwards
EdgesBackwards == \A i \in 1..N : \A d \in stmts[i].deps : d < i

\* dump of the built programs with the model's edges, for conformance with the real builder
Dump == mode # "exec" \/ done # {} \/ (\E k \in FlagStmts : ~truth[k]) \/
        PrintT("GEN " \o ToJson([k \in 1..N |-> [kind |-> stmts[k].kind, reads |-> stmts[k].reads, writes |-> stmts[k].writes,
                                                  deps |-> stmts[k].deps, guard |-> stmts[k].guard]]))
=============================================================================
