------------------------------- MODULE Rewrite -------------------------------
(***************************************************************************)
(* Contract for C07.  A structured phase (tree of statements as the code   *)
(* generators hold it) is run top to bottom on a concrete integer store    *)
(* with a log of external calls; a wrapped statement executes iff the      *)
(* enclosing conditions and its own condition hold.  Each case carries the *)
(* tree BEFORE and AFTER a rewriting pass of the REAL dagrt.codegen.       *)
(* transform (alone, or the four in the order the Fortran generator uses); *)
(* TLC picks the initial valuation and requires                            *)
(*   SameOriginalVars  every variable of the original program ends with    *)
(*                     the same value                                      *)
(*   SameCalls         the same external functions are called with the     *)
(*                     same arguments (as a multiset)                      *)
(*   DefBeforeUse      no variable is read before it is set on the path    *)
(*                     taken (if that was so before the pass)              *)
(*   FreshIds          statement ids stay unique, new ids are new          *)
(* Names introduced by a pass that collide with user names show up as      *)
(* SameOriginalVars violations (the user's variable is clobbered).         *)
(***************************************************************************)
EXTENDS Expr, Json, IOUtils

Cases == JsonDeserialize(IOEnv.CASES)

VARIABLES cid, val
vars == <<cid, val>>

SeqSet(s) == {s[k] : k \in DOMAIN s}
Put(st, v, x) == [n \in DOMAIN st \cup {v} |-> IF n = v THEN x ELSE st[n]]

\* calls performed by evaluating e in st, in evaluation order (lazy where Eval is lazy)
RECURSIVE CallsOf(_, _), CallsOfSeq(_, _, _), CallsOfKw(_, _, _), CallsAnd(_, _, _), CallsOr(_, _, _)
CallsOfSeq(s, st, k) == IF k > Len(s) THEN <<>> ELSE CallsOf(s[k], st) \o CallsOfSeq(s, st, k + 1)
CallsOfKw(s, st, k)  == IF k > Len(s) THEN <<>> ELSE CallsOf(s[k][2], st) \o CallsOfKw(s, st, k + 1)
CallsAnd(s, st, k) == IF k > Len(s) THEN <<>>
                      ELSE CallsOf(s[k], st) \o (IF Eval(s[k], st) = B(TRUE) THEN CallsAnd(s, st, k + 1) ELSE <<>>)
CallsOr(s, st, k)  == IF k > Len(s) THEN <<>>
                      ELSE CallsOf(s[k], st) \o (IF Eval(s[k], st) = B(FALSE) THEN CallsOr(s, st, k + 1) ELSE <<>>)
CallsOf(e, st) ==
    CASE e[1] \in {"v", "c", "cb", "cx", "none", "s", "x"} -> <<>>
      [] e[1] \in {"sum", "prod", "min", "max", "tuple"} -> CallsOfSeq(e[2], st, 1)
      [] e[1] \in {"pow", "quot", "fdiv", "rem"} -> CallsOf(e[2], st) \o CallsOf(e[3], st)
      [] e[1] = "cmp" -> CallsOf(e[3], st) \o CallsOf(e[4], st)
      [] e[1] = "and" -> CallsAnd(e[2], st, 1)
      [] e[1] = "or" -> CallsOr(e[2], st, 1)
      [] e[1] = "not" -> CallsOf(e[2], st)
      [] e[1] = "if" -> CallsOf(e[2], st) \o
                        (IF Eval(e[2], st) = B(TRUE) THEN CallsOf(e[3], st)
                         ELSE IF Eval(e[2], st) = B(FALSE) THEN CallsOf(e[4], st) ELSE <<>>)
      [] e[1] = "sub" -> CallsOf(e[2], st) \o CallsOfSeq(e[3], st, 1)
      [] e[1] = "call" -> CallsOfSeq(e[3], st, 1) \o CallsOfKw(e[4], st, 1) \o
                          <<<<e[2][2], EvalSeq(e[3], st, 1), EvalKw(e[4], st, 1)>>>>

\* accumulator: [st, calls, ok]
Fail(acc) == [acc EXCEPT !.ok = FALSE]

ExecLeaf(s, acc) ==
    LET g == Eval(s.guard, acc.st) IN
      IF ~IsB(g) THEN Fail(acc)
      ELSE IF ~g[2] THEN acc
      ELSE CASE s.kind = "Assign" ->
                  LET v == Eval(s.rhs, acc.st)
                      cl == CallsOf(s.rhs, acc.st) \o CallsOfSeq(s.sub, acc.st, 1) IN
                    IF v = U \/ v[1] = "t" \/ v[1] = "e" THEN Fail(acc)
                    ELSE IF s.sub = <<>> THEN [acc EXCEPT !.st = Put(@, s.lhs[1], v), !.calls = @ \o cl]
                    ELSE LET ix == Eval(s.sub[1], acc.st)
                             a  == IF s.lhs[1] \in DOMAIN acc.st THEN acc.st[s.lhs[1]] ELSE U IN
                           IF IsA(a) /\ IsI(ix) /\ IsI(v) /\ ix[2] >= 0 /\ ix[2] < Len(a[2])
                           THEN [acc EXCEPT !.st = Put(@, s.lhs[1], A([a[2] EXCEPT ![ix[2] + 1] = v[2]])), !.calls = @ \o cl]
                           ELSE Fail(acc)
             [] s.kind = "AssignFunctionCall" ->
                  LET args == EvalSeq(s.args, acc.st, 1)  kw == EvalKw(s.kw, acc.st, 1)
                      cl == CallsOfSeq(s.args, acc.st, 1) \o CallsOfKw(s.kw, acc.st, 1) \o <<<<s.f, args, kw>>>> IN
                    IF (\E k \in DOMAIN args : args[k] = U) \/ (\E k \in DOMAIN kw : kw[k][2] = U) THEN Fail(acc)
                    ELSE LET v == Apply(s.f, args, kw) IN
                           IF v = U \/ v[1] = "e" THEN Fail(acc)
                           ELSE IF Len(s.lhs) = 1 /\ v[1] # "t" THEN [acc EXCEPT !.st = Put(@, s.lhs[1], v), !.calls = @ \o cl]
                           ELSE IF v[1] = "t" /\ Len(s.lhs) = Len(v[2])
                                THEN [acc EXCEPT !.calls = @ \o cl,
                                         !.st = [x \in DOMAIN @ \cup SeqSet(s.lhs) |->
                                                   IF x \in SeqSet(s.lhs)
                                                   THEN v[2][CHOOSE k \in DOMAIN s.lhs : s.lhs[k] = x /\ \A m \in DOMAIN s.lhs : s.lhs[m] = x => m <= k]
                                                   ELSE @[x]]]
                                ELSE Fail(acc)
             [] s.kind = "YieldState" ->
                  LET v == Eval(s.rhs, acc.st) IN
                    IF v = U THEN Fail(acc)
                    ELSE [acc EXCEPT !.calls = @ \o CallsOf(s.rhs, acc.st) \o CallsOf(s.time, acc.st) \o <<<<"yield", <<v>>, <<>>>>>>]
             [] OTHER -> acc          \* FailStep / SwitchPhase / Raise do not occur in the rewrite profile

RECURSIVE RunT(_, _), RunTSeq(_, _, _), RunLoop(_, _, _, _)
RunT(t, acc) ==
    IF ~acc.ok THEN acc
    ELSE CASE t[1] = "L" -> ExecLeaf(t[2], acc)
           [] t[1] = "N" -> acc
           [] t[1] = "B" -> RunTSeq(t[2], 1, acc)
           [] t[1] = "I" -> LET c == Eval(t[2], acc.st) IN
                              IF ~IsB(c) THEN Fail(acc) ELSE IF c[2] THEN RunT(t[3], acc) ELSE acc
           [] t[1] = "E" -> LET c == Eval(t[2], acc.st) IN
                              IF ~IsB(c) THEN Fail(acc) ELSE IF c[2] THEN RunT(t[3], acc) ELSE RunT(t[4], acc)
           [] t[1] = "F" -> LET lo == Eval(t[3], acc.st)  hi == Eval(t[4], acc.st) IN
                              IF IsI(lo) /\ IsI(hi) /\ hi[2] - lo[2] <= 6 THEN RunLoop(t, lo[2], hi[2], acc) ELSE Fail(acc)
RunTSeq(s, k, acc) == IF k > Len(s) THEN acc ELSE RunTSeq(s, k + 1, RunT(s[k], acc))
RunLoop(t, i, hi, acc) ==
    IF i >= hi \/ ~acc.ok THEN acc
    ELSE RunLoop(t, i + 1, hi, RunT(t[5], [acc EXCEPT !.st = Put(@, t[2], I(i))]))

----------------------------------------------------------------------------
Inputs == Cases[cid].inputs          \* names that get a value from the valuation
Init == cid \in DOMAIN Cases /\ val = <<>>
ChooseVal ==
    /\ val = <<>>
    /\ \E f \in [DOMAIN Inputs -> {0, 1, 3}] :
          val' = [n \in SeqSet(Inputs) \cup {"<state>w"} |->
                     IF n = "<state>w" THEN A(<<4, -1, 2>>) ELSE I(f[CHOOSE k \in DOMAIN Inputs : Inputs[k] = n])]
    /\ UNCHANGED cid
Next == ChooseVal
Ready == val # <<>>

RunOf(t) == RunT(t, [st |-> val, calls |-> <<>>, ok |-> TRUE])
BeforeRun == RunOf(Cases[cid].before)
AfterRun  == RunOf(Cases[cid].after)

Count(s, x) == Cardinality({k \in DOMAIN s : s[k] = x})
SameBag(s, t) == Len(s) = Len(t) /\ \A k \in DOMAIN s : Count(s, s[k]) = Count(t, s[k])

Judged == Ready /\ Cases[cid].err = "" /\ BeforeRun.ok
NoErrorStrict == Cases[cid].err = ""
DefBeforeUseStrict == Judged => AfterRun.ok
SameOriginalVarsStrict ==
    (Judged /\ AfterRun.ok) =>
        \A v \in SeqSet(Cases[cid].origvars) :
            v \in DOMAIN BeforeRun.st => (v \in DOMAIN AfterRun.st /\ AfterRun.st[v] = BeforeRun.st[v])
SameCallsStrict == (Judged /\ AfterRun.ok) => SameBag(BeforeRun.calls, AfterRun.calls)
FreshIdsStrict ==
    LET ia == Cases[cid].ids_after  ib == Cases[cid].ids_before IN
      /\ \A i, j \in DOMAIN ia : i # j => ia[i] # ia[j]

Rep(name, ok) == ok \/ PrintT(<<"BAD", cid, name>>)
NoError == Rep("NoError", val # <<>> \/ NoErrorStrict)
DefBeforeUse == Rep("DefBeforeUse", DefBeforeUseStrict)
SameOriginalVars == Rep("SameOriginalVars", SameOriginalVarsStrict)
SameCalls == Rep("SameCalls", SameCallsStrict)
FreshIds == Rep("FreshIds", val # <<>> \/ FreshIdsStrict)
Vacuity == ~Judged \/ PrintT(<<"JUDGED", cid>>)
=============================================================================
