INIT Init
NEXT Next
CHECK_DEADLOCK FALSE
INVARIANT GuardAtVisitStrict
INVARIANT NoEffectWhenFalseStrict
INVARIANT EffectWhenTrueStrict
INVARIANT ChainOrderStrict
