INIT Init
NEXT Next
CHECK_DEADLOCK FALSE
INVARIANT NoErrorStrict
INVARIANT EndStateStrict
