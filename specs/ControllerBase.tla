--------------------------- MODULE ControllerBase ---------------------------
(***************************************************************************)
(* Contract for C04: what ANY correct execution controller may do during   *)
(* one step of a phase.  A step is a sequence of "visits".  Visiting s is  *)
(* allowed only if                                                         *)
(*   Once          s has not been visited in this step,                    *)
(*   DepsFirst     everything s depends on has been visited,               *)
(*   RequestedFirst if statements were requested while the step was        *)
(*                 running and some of them (or of their unvisited         *)
(*                 dependencies) are still unvisited, s is one of those    *)
(*                 (innermost request first).                              *)
(* A step that is not cut short ends only when AllVisited holds.  A        *)
(* statement whose guard is false has no effect but counts as visited.     *)
(* The contract says nothing about HOW the next statement is chosen.       *)
(***************************************************************************)
EXTENDS Naturals, Sequences, FiniteSets, TLC

VARIABLES nst,       \* number of statements of the phase (ids are 1..nst)
          deps,      \* [1..nst -> SUBSET 1..nst], acyclic
          executed,  \* statements visited so far in this step
          pending,   \* stack of request obligations (sequence of sets), innermost last
          cut,       \* the step was ended early by a failure / switch / error
          log        \* visits of this step in order (history)

absvars == <<nst, deps, executed, pending, cut, log>>

Stmts == 1..nst

RECURSIVE Closure(_)
\* the requested statements together with everything they transitively depend on
Closure(S) == LET D == UNION {deps[s] : s \in S} IN
                IF D \subseteq S THEN S ELSE Closure(S \cup D)

RECURSIVE DropEmpty(_)
DropEmpty(p) == IF p # <<>> /\ p[Len(p)] = {} THEN DropEmpty(SubSeq(p, 1, Len(p) - 1)) ELSE p

OnceOK(s)      == s \notin executed
DepsFirstOK(s) == deps[s] \subseteq executed
RequestedFirstOK(s) == pending = <<>> \/ s \in pending[Len(pending)]
VisitAllowed(s) == OnceOK(s) /\ DepsFirstOK(s) /\ RequestedFirstOK(s)

\* name of the first violated clause, for reporting
Clause(s) == IF ~OnceOK(s) THEN "Once"
             ELSE IF ~DepsFirstOK(s) THEN "DepsFirst"
             ELSE IF ~RequestedFirstOK(s) THEN "RequestedFirst"
             ELSE "ok"

\* effect of visiting s on the contract state; R = statements it requests (only if its guard held)
AbsVisit(s, R) ==
    /\ executed' = executed \cup {s}
    /\ log' = Append(log, s)
    /\ LET p1 == DropEmpty([k \in DOMAIN pending |-> pending[k] \ {s}])
           need == Closure(R) \ (executed \cup {s})
       IN pending' = IF need = {} THEN p1 ELSE Append(p1, need)

AbsReset ==
    /\ executed' = {} /\ pending' = <<>> /\ cut' = FALSE /\ log' = <<>>

EndAllowed == cut \/ executed = Stmts
EndClause  == IF EndAllowed THEN "ok" ELSE "AllVisited"
=============================================================================
