INIT Init
NEXT Next
CHECK_DEADLOCK FALSE
INVARIANT ExactlyEnabledOnceStrict
INVARIANT LoopsAsDeclaredStrict
INVARIANT DepsRespectedStrict
INVARIANT OrderIndependentStrict
INVARIANT NoErrorStrict
