INIT Init
NEXT Next
CHECK_DEADLOCK FALSE
CONSTRAINT Bound
INVARIANT Dump
INVARIANT Balanced
