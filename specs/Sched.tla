------------------------------- MODULE Sched -------------------------------
(***************************************************************************)
(* Contract specification for C02 (and reused by C16): a phase is a set of *)
(* statements with dependency edges.  Any execution order that respects    *)
(* the edges must be indistinguishable from executing the statements in    *)
(* the order in which they were written.                                   *)
(*                                                                         *)
(* The statements, their edges and guards are NOT modelled here: they are  *)
(* exported from the real CodeBuilder (harness/progs.py) and read from the *)
(* batch file.  What the specification contributes is the quantifier: TLC  *)
(* visits every linear extension of the real edge relation and every       *)
(* valuation of the guard flags, with values as Herbrand terms so that     *)
(* "same value" means "same for all inputs and all function meanings".     *)
(***************************************************************************)
EXTENDS Naturals, Sequences, FiniteSets, TLC, Json, IOUtils

Cases == JsonDeserialize(IOEnv.CASES)

VARIABLES cid,      \* which exported program of the batch
          truth,    \* oracle: truth value produced by each flag-assigning statement
          done,     \* statements already executed (or skipped because their guard was false)
          store,    \* variable name -> Herbrand term
          events,   \* externally visible effects so far
          halted,   \* a FailStep / SwitchPhase / Raise has taken effect
          fenceOK   \* every non-assignment so far saw all earlier persistent updates

vars == <<cid, truth, done, store, events, halted, fenceOK>>

Prog      == Cases[cid].stmts
N         == Len(Prog)
VarRecs   == Cases[cid].vars
VarNames  == {VarRecs[k].n : k \in DOMAIN VarRecs}
Persist   == {VarRecs[k].n : k \in {j \in DOMAIN VarRecs : VarRecs[j].p}}
SeqToSet(s) == {s[k] : k \in DOMAIN s}
Deps(i)   == SeqToSet(Prog[i].deps)
FlagStmts(c) == {i \in DOMAIN Cases[c].stmts : Cases[c].stmts[i].flag}

InitStore == [v \in VarNames |-> <<"init", v>>]

FlagValue(val) == IF val[1] = "flag" THEN val[2] ELSE FALSE

Holds(i, st) ==
    \A k \in DOMAIN Prog[i].guard :
        FlagValue(st[Prog[i].guard[k][1]]) = Prog[i].guard[k][2]

ReadTerms(i, st) == [k \in DOMAIN Prog[i].treads |-> st[Prog[i].treads[k]]]

\* The value statement i leaves in its k-th target.
Written(i, k, st) ==
    IF Prog[i].flag
    THEN <<"flag", truth[i], Prog[i].body, ReadTerms(i, st)>>
    ELSE <<"val", Prog[i].body, k, ReadTerms(i, st)>>

\* Effect of statement i (guard already known to hold) on <<store, events, halted>>.
Effect(i, st, ev) ==
    IF Prog[i].halt
    THEN [st |-> st, ev |-> Append(ev, <<"halt", Prog[i].body>>), h |-> TRUE]
    ELSE IF Prog[i].event
    THEN [st |-> st, ev |-> Append(ev, <<"yield", Prog[i].body, ReadTerms(i, st)>>), h |-> FALSE]
    ELSE [st |-> [v \in VarNames |->
                    IF \E k \in DOMAIN Prog[i].twrites : Prog[i].twrites[k] = v
                    THEN Written(i, CHOOSE k \in DOMAIN Prog[i].twrites : Prog[i].twrites[k] = v, st)
                    ELSE st[v]],
          ev |-> ev, h |-> FALSE]

IsNonAssignment(i) == Prog[i].halt \/ Prog[i].event
WritesPersistent(j) == \E k \in DOMAIN Prog[j].twrites : Prog[j].twrites[k] \in Persist

Init ==
    /\ cid \in DOMAIN Cases
    /\ truth \in [FlagStmts(cid) -> BOOLEAN]
    /\ done = {}
    /\ store = InitStore
    /\ events = <<>>
    /\ halted = FALSE
    /\ fenceOK = TRUE

\* Any statement whose recorded dependencies have all been visited may go next.
Exec(i) ==
    /\ ~halted
    /\ i \notin done
    /\ Deps(i) \subseteq done
    /\ done' = done \cup {i}
    /\ fenceOK' = (fenceOK /\ (IsNonAssignment(i) =>
                       \A j \in 1..(i-1) : WritesPersistent(j) => j \in done))
    /\ IF Holds(i, store)
       THEN LET r == Effect(i, store, events) IN
              /\ store' = r.st /\ events' = r.ev /\ halted' = r.h
       ELSE UNCHANGED <<store, events, halted>>
    /\ UNCHANGED <<cid, truth>>

Next == \E i \in 1..N : Exec(i)

Spec == Init /\ [][Next]_vars

----------------------------------------------------------------------------
\* Reference: the statements one after another in the order they were written.
RECURSIVE Ref(_, _, _)
Ref(i, st, ev) ==
    IF i > N THEN [st |-> st, ev |-> ev, h |-> FALSE]
    ELSE IF Holds(i, st)
         THEN LET r == Effect(i, st, ev) IN
                IF r.h THEN r ELSE Ref(i + 1, r.st, r.ev)
         ELSE Ref(i + 1, st, ev)

Terminal == halted \/ done = 1..N

SameOutcome ==
    LET r == Ref(1, InitStore, <<>>) IN
      /\ r.h = halted
      /\ r.ev = events
      /\ IF halted
         THEN \A v \in Persist : r.st[v] = store[v]     \* temporaries die with the step
         ELSE r.st = store

ScheduleIndependenceStrict == Terminal => SameOutcome
FenceOrderStrict == fenceOK

\* Names handed out by the builder (guard flags, fresh_var_name) are new and distinct.
FreshOK(c) ==
    LET F == Cases[c].fresh IN
      /\ \A k \in DOMAIN F : \A m \in DOMAIN F[k].before : F[k].before[m] # F[k].name
      /\ \A k, m \in DOMAIN F : k # m => F[k].name # F[m].name

\* Reporting variants: one TLC run lists every violating program of the batch.
ScheduleIndependence == ScheduleIndependenceStrict \/ PrintT(<<"BAD", cid, "ScheduleIndependence">>)
FenceOrder == FenceOrderStrict \/ PrintT(<<"BAD", cid, "FenceOrder">>)
FreshNames == (done # {}) \/ FreshOK(cid) \/ PrintT(<<"BAD", cid, "FreshNames">>)
FreshNamesStrict == FreshOK(cid)

\* Vacuity counters: how many programs really had a choice of schedule.
Branching == Cardinality({i \in 1..N : i \notin done /\ Deps(i) \subseteq done}) > 1
=============================================================================
