------------------------------ MODULE ExprGen ------------------------------
(***************************************************************************)
(* Generator of expressions of the dagrt expression language for C17-C19.  *)
(* An expression is grown in preorder; the stack holds the sorts of the    *)
(* operands still owed ("a" arithmetic, "b" boolean), so that only         *)
(* well-sorted expressions are produced.  TLC enumerates every expression  *)
(* with at most MaxTokens nodes (exhaustive) or samples larger ones.       *)
(* Tokens are names from the catalogue below; the harness turns a token    *)
(* sequence into a pymbolic object.                                        *)
(***************************************************************************)
EXTENDS Naturals, Sequences, TLC, Json

CONSTANTS MaxTokens, RootSorts, Allowed    \* Allowed: the tokens (leaves and operators) to use

VARIABLES toks, owed
vars == <<toks, owed>>

\* token |-> <<result sort, operand sorts>>
ArithLeaves == {"x", "y", "sz", "pw", "c0", "c1", "c2", "cm1", "p", "q"}     \* p, q: template variables (C17)
Sig(t) ==
    CASE t \in ArithLeaves -> <<"a", <<>>>>
      [] t = "sum2"  -> <<"a", <<"a", "a">>>>
      [] t = "sum3"  -> <<"a", <<"a", "a", "a">>>>
      [] t = "prod2" -> <<"a", <<"a", "a">>>>
      [] t = "prod3" -> <<"a", <<"a", "a", "a">>>>
      [] t = "neg"   -> <<"a", <<"a">>>>
      [] t = "pow2"  -> <<"a", <<"a">>>>             \* e ** 2
      [] t = "powc"  -> <<"a", <<"a">>>>             \* 2 ** e  (small e only evaluates)
      [] t = "quot"  -> <<"a", <<"a", "a">>>>
      [] t = "callf" -> <<"a", <<"a">>>>             \* <func>f(e)
      [] t = "callfk" -> <<"a", <<"a", "a">>>>       \* <func>f(e, k=e)
      [] t = "callfkm" -> <<"a", <<"a", "a", "a">>>> \* <func>f(e, k=e, m=e)
      [] t = "callg" -> <<"a", <<"a", "a">>>>        \* <func>g(e, e)
      [] t = "sub"   -> <<"a", <<"a">>>>             \* arr[e]
      [] t = "min2"  -> <<"a", <<"a", "a">>>>
      [] t = "max2"  -> <<"a", <<"a", "a">>>>
      [] t = "if"    -> <<"a", <<"b", "a", "a">>>>
      [] t = "lt"    -> <<"b", <<"a", "a">>>>
      [] t = "eq"    -> <<"b", <<"a", "a">>>>
      [] t = "ne"    -> <<"b", <<"a", "a">>>>
      [] t = "ge"    -> <<"b", <<"a", "a">>>>
      [] t = "and2"  -> <<"b", <<"b", "b">>>>
      [] t = "or2"   -> <<"b", <<"b", "b">>>>
      [] t = "not"   -> <<"b", <<"b">>>>
Tokens == Allowed

Init == toks = <<>> /\ owed \in {<<s>> : s \in RootSorts}

Emit(t) ==
    /\ owed # <<>>
    /\ Sig(t)[1] = Head(owed)
    /\ Len(toks) + Len(owed) + Len(Sig(t)[2]) <= MaxTokens
    /\ toks' = Append(toks, t)
    /\ owed' = Sig(t)[2] \o Tail(owed)

Next == \E t \in Tokens : Emit(t)
Spec == Init /\ [][Next]_vars
Dump == owed # <<>> \/ toks = <<>> \/ PrintT("GEN " \o ToJson(toks))
=============================================================================
