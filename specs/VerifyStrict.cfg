INIT Init
NEXT Next
CHECK_DEADLOCK FALSE
INVARIANT AcceptIffStrict
INVARIANT DocumentedErrorStrict
INVARIANT ConsumersSafeStrict
