------------------------------ MODULE MethodGen ------------------------------
(***************************************************************************)
(* Generator of method descriptions for C10 -- well-formed and ill-formed  *)
(* alike.  Phase "A" has NA statements 1..NA, phase "B" has one statement  *)
(* NA+1.  A behaviour adds features one at a time:                          *)
(*   AddEdge(i, j)      dependency inside phase A (self-loops, cycles)      *)
(*   AddExtra(i, t)     dependency of an A statement on a missing id (0)    *)
(*                      or on the statement of phase B (cross-phase)        *)
(*   AddBack            phase B's statement depends on statement 1 of A     *)
(*   SetSwitch(i, tgt)  statement i becomes a phase switch to A / B / a     *)
(*                      phase that does not exist                           *)
(*   AddFlagWriter(i)   statement i (also) assigns the condition flag       *)
(* Every reachable state is a method; TLC enumerates all of them within     *)
(* the feature budget.                                                      *)
(***************************************************************************)
EXTENDS Naturals, FiniteSets, Sequences, TLC, Json

CONSTANTS NA,        \* statements in phase A
          Budget     \* features besides the edges inside phase A

VARIABLES edges,    \* SUBSET (1..NA \X 1..NA): <<i, j>> means i depends on j
          extra,    \* SUBSET (1..NA \X {0, NA+1})
          back,     \* BOOLEAN: B's statement depends on A's statement 1
          switch,   \* <<i, tgt>> or <<>>;  tgt \in {"A", "B", "missing"}
          flagw     \* statements (of A or B) assigning the flag <cond>f

vars == <<edges, extra, back, switch, flagw>>

Init == edges = {} /\ extra = {} /\ back = FALSE /\ switch = <<>> /\ flagw = {}

Features == Cardinality(extra) + (IF back THEN 1 ELSE 0) + (IF switch = <<>> THEN 0 ELSE 1) + Cardinality(flagw)
Room == Features < Budget

AddEdge(i, j) == /\ <<i, j>> \notin edges
                 /\ \A e \in edges : (e[1] < i) \/ (e[1] = i /\ e[2] < j)   \* canonical order: no duplicates
                 /\ extra = {} /\ ~back /\ switch = <<>> /\ flagw = {}
                 /\ edges' = edges \cup {<<i, j>>}
                 /\ UNCHANGED <<extra, back, switch, flagw>>

AddExtra(i, t) == /\ <<i, t>> \notin extra /\ Room
                  /\ \A e \in extra : (e[1] < i) \/ (e[1] = i /\ e[2] < t)
                  /\ ~back /\ switch = <<>> /\ flagw = {}
                  /\ extra' = extra \cup {<<i, t>>}
                  /\ UNCHANGED <<edges, back, switch, flagw>>

AddBack == /\ ~back /\ Room /\ switch = <<>> /\ flagw = {}
           /\ back' = TRUE /\ UNCHANGED <<edges, extra, switch, flagw>>

SetSwitch(i, tgt) == /\ switch = <<>> /\ flagw = {} /\ Room
                     /\ switch' = <<i, tgt>>
                     /\ UNCHANGED <<edges, extra, back, flagw>>

AddFlagWriter(i) == /\ i \notin flagw /\ Room /\ (IF switch = <<>> THEN TRUE ELSE switch[1] # i)
                    /\ \A w \in flagw : w < i
                    /\ flagw' = flagw \cup {i}
                    /\ UNCHANGED <<edges, extra, back, switch>>

Next == \/ \E i, j \in 1..NA : AddEdge(i, j)
        \/ \E i \in 1..NA, t \in {0, NA + 1} : AddExtra(i, t)
        \/ AddBack
        \/ \E i \in 1..NA, tgt \in {"A", "B", "missing"} : SetSwitch(i, tgt)
        \/ \E i \in 1..(NA + 1) : AddFlagWriter(i)

Spec == Init /\ [][Next]_vars

SetToSeq(S) == LET RECURSIVE F(_)
                   F(T) == IF T = {} THEN <<>> ELSE LET x == CHOOSE y \in T : TRUE IN <<x>> \o F(T \ {x})
               IN F(S)

Dump == PrintT("GEN " \o ToJson([na |-> NA, edges |-> SetToSeq(edges), extra |-> SetToSeq(extra),
                                   back |-> back, switch |-> switch, flagw |-> SetToSeq(flagw)]))
=============================================================================
