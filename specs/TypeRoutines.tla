---------------------------- MODULE TypeRoutines ----------------------------
(***************************************************************************)
(* C12, storage of ONE user-type value.  The Fortran generator writes, per *)
(* user type, an allocation-check routine and a release routine            *)
(* (dagrt_alloc_check_T / dagrt_deinit_T) by walking the type description  *)
(* (structures, pointers, arrays).  RefCount.tla treats both as atomic;    *)
(* this module runs the EMITTED bodies, extracted from the generated text  *)
(* (harness/fextract.py type_routine), on an object tree:                  *)
(*   Paths      the pointer-valued places of the object, <<"y">> being the *)
(*              value itself, <<"y","v">> a pointer member, ...            *)
(*   status[p]  "unalloc" | "live" | "freed"   storage behind the pointer  *)
(*   ptr[p]     "null" | "set"                 what associated() sees      *)
(*   rc         "none" | "live" | "freed", rcval the shared counter        *)
(* Scenarios: the value is unassociated ("fresh"), owned by this reference *)
(* alone (counter 1, "owned") or shared (counter 2, "shared").             *)
(*   NoAccessUnderFreed   no statement touches a place whose container is  *)
(*                        not live (released or never allocated)           *)
(*   FreeOnce             deallocate only of live storage                  *)
(*   NoMemberLeak         a container is released after its live members  *)
(*   EndState             the contract of the routine for the scenario     *)
(***************************************************************************)
EXTENDS Integers, Sequences, FiniteSets, TLC, Json, IOUtils

Cases == JsonDeserialize(IOEnv.CASES)

VARIABLES cid, scen, routine, pc, status, ptr, rc, rcval, othersHold, err
vars == <<cid, scen, routine, pc, status, ptr, rc, rcval, othersHold, err>>

SeqSet(s) == {s[k] : k \in DOMAIN s}
Paths == SeqSet(Cases[cid].paths)          \* sequences of components, the first one is the top
Top == Cases[cid].paths[1]
Ins == IF routine = "alloc" THEN Cases[cid].alloc ELSE Cases[cid].deinit

IsProperPrefix(q, p) == Len(q) < Len(p) /\ SubSeq(p, 1, Len(q)) = q
Containers(p) == {q \in Paths : IsProperPrefix(q, p)}
Members(p) == {q \in Paths : IsProperPrefix(p, q)}

Init ==
    /\ cid \in DOMAIN Cases
    /\ scen \in {"fresh", "owned", "shared"}
    /\ routine \in {"alloc", "deinit"}
    /\ pc = 1 /\ err = ""
    /\ status = [p \in SeqSet(Cases[cid].paths) |-> IF scen = "fresh" THEN "unalloc" ELSE "live"]
    /\ ptr = [p \in SeqSet(Cases[cid].paths) |-> IF scen = "fresh" THEN "null" ELSE "set"]
    /\ rc = IF scen = "fresh" THEN "none" ELSE "live"
    /\ rcval = IF scen = "shared" THEN 2 ELSE IF scen = "owned" THEN 1 ELSE 0
    /\ othersHold = (scen = "shared")

Reachable(p) == \A q \in Containers(p) : status[q] = "live"
Fail(e) == err' = e /\ UNCHANGED <<cid, scen, routine, pc, status, ptr, rc, rcval, othersHold>>

\* truth of a condition literal <<name, path or <<>>, polarity>>
Holds(l) ==
    LET v == IF l[1] = "assoc" THEN ptr[l[2]] = "set" ELSE rcval = 1 IN
      IF l[3] THEN v ELSE ~v

Step ==
    /\ err = "" /\ pc <= Len(Ins)
    /\ LET i == Ins[pc] IN
         CASE i[1] = "br" ->
                IF i[3][1] = "assoc" /\ ~Reachable(i[3][2]) THEN Fail("NoAccessUnderFreed")
                ELSE IF i[3][1] = "rc1" /\ rc # "live" THEN Fail("CounterNotLive")
                ELSE /\ pc' = IF Holds(i[3]) THEN pc + 1 ELSE i[2]
                     /\ UNCHANGED <<cid, scen, routine, status, ptr, rc, rcval, othersHold, err>>
           [] i[1] = "jmp" ->
                pc' = i[2] /\ UNCHANGED <<cid, scen, routine, status, ptr, rc, rcval, othersHold, err>>
           [] i[1] = "allocate" ->
                IF ~Reachable(i[2]) THEN Fail("NoAccessUnderFreed")
                ELSE IF status[i[2]] = "live" /\ ptr[i[2]] = "set" /\ ~(i[2] = Top /\ othersHold)
                     THEN Fail("NoMemberLeak")           \* the only pointer to live storage is overwritten
                ELSE /\ status' = [p \in DOMAIN status |->
                                     IF p = i[2] THEN "live" ELSE IF p \in Members(i[2]) THEN "unalloc" ELSE status[p]]
                     /\ ptr' = [p \in DOMAIN ptr |-> IF p = i[2] THEN "set" ELSE IF p \in Members(i[2]) THEN "null" ELSE ptr[p]]
                     /\ pc' = pc + 1
                     /\ UNCHANGED <<cid, scen, routine, rc, rcval, othersHold, err>>
           [] i[1] = "deallocate" ->
                IF ~Reachable(i[2]) THEN Fail("NoAccessUnderFreed")
                ELSE IF status[i[2]] # "live" \/ ptr[i[2]] # "set" THEN Fail("FreeOnce")
                ELSE IF \E m \in Members(i[2]) : status[m] = "live" THEN Fail("NoMemberLeak")
                ELSE /\ status' = [status EXCEPT ![i[2]] = "freed"]
                     /\ pc' = pc + 1
                     /\ UNCHANGED <<cid, scen, routine, ptr, rc, rcval, othersHold, err>>
           [] i[1] = "nullify" ->
                IF ~Reachable(i[2]) THEN Fail("NoAccessUnderFreed")
                ELSE IF status[i[2]] = "live" /\ ptr[i[2]] = "set" /\ ~(i[2] = Top /\ othersHold)
                     THEN Fail("NoMemberLeak")
                ELSE /\ ptr' = [ptr EXCEPT ![i[2]] = "null"]
                     /\ pc' = pc + 1
                     /\ UNCHANGED <<cid, scen, routine, status, rc, rcval, othersHold, err>>
           [] i[1] = "allocrc" ->
                /\ rc' = "live" /\ rcval' = 0 /\ pc' = pc + 1
                /\ UNCHANGED <<cid, scen, routine, status, ptr, othersHold, err>>
           [] i[1] = "deallocrc" ->
                IF rc # "live" THEN Fail("FreeOnce")
                ELSE IF othersHold THEN Fail("CounterFreedWhileShared")
                ELSE /\ rc' = "freed" /\ pc' = pc + 1
                     /\ UNCHANGED <<cid, scen, routine, status, ptr, rcval, othersHold, err>>
           [] i[1] = "setrc" ->
                IF rc # "live" THEN Fail("CounterNotLive")
                ELSE /\ rcval' = 1 /\ pc' = pc + 1
                     /\ UNCHANGED <<cid, scen, routine, status, ptr, rc, othersHold, err>>
           [] i[1] = "decrc" ->
                \* the shared counter cell stays with the other holders; this reference lets go of it
                IF rc # "live" THEN Fail("CounterNotLive")
                ELSE /\ rcval' = rcval - 1 /\ pc' = pc + 1
                     /\ UNCHANGED <<cid, scen, routine, status, ptr, rc, othersHold, err>>
           [] OTHER -> Fail("UnknownInstruction")

Next == Step
Done == pc > Len(Ins) /\ err = ""

\* what the routine promises, per scenario
EndStateStrict ==
    Done =>
      IF routine = "deinit"
      THEN CASE scen = "fresh"  -> /\ \A p \in Paths : status[p] = "unalloc" /\ ptr[p] = "null"
                                   /\ rc = "none"
             [] scen = "owned"  -> /\ \A p \in Paths : status[p] = "freed"
                                   /\ ptr[Top] = "null" /\ rc = "freed"
             [] scen = "shared" -> /\ \A p \in Paths : status[p] = "live"       \* the others keep the storage
                                   /\ ptr[Top] = "null" /\ rc = "live" /\ rcval = 1
      ELSE CASE scen = "fresh"  -> /\ \A p \in Paths : status[p] = "live" /\ ptr[p] = "set"
                                   /\ rc = "live" /\ rcval = 1
             [] scen = "owned"  -> /\ \A p \in Paths : status[p] = "live" /\ ptr[p] = "set"
                                   /\ rc = "live" /\ rcval = 1
             [] scen = "shared" -> /\ \A p \in Paths : status[p] = "live" /\ ptr[p] = "set"
                                   /\ rc = "live" /\ rcval = 1                  \* a fresh private copy

Rep(name, ok) == ok \/ PrintT(<<"BAD", cid, name, routine, scen, pc>>)
NoError  == Rep(err, err = "")
EndState == Rep("EndState", EndStateStrict)
Judged   == ~Done \/ PrintT(<<"RAN", cid, routine, scen>>)
NoErrorStrict == err = ""
=============================================================================
