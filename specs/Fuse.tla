-------------------------------- MODULE Fuse --------------------------------
(***************************************************************************)
(* Contract for C16 (static part).  A case holds the statements of two     *)
(* phases A and B, the statements of the fused phase produced by the REAL  *)
(* fuse_two_dags, the renaming predicate the caller asked for, and a       *)
(* witness proposed by the harness: for every statement of A and of B the  *)
(* position of its image in the fused phase.  TLC checks the witness:      *)
(*   IdsUnique         ids of the fused phase are pairwise distinct        *)
(*   Complete          every statement of A and B has exactly one image,   *)
(*                     nothing else is in the fused phase                  *)
(*   DepsIntact        the image of a statement depends on exactly the     *)
(*                     images of the statements it depended on             *)
(*   SameShape         images have the same kind, function and expression  *)
(*                     skeleton; A's statements are untouched              *)
(*   RenamingFunction  the variable renaming of B read off the images is a *)
(*                     function -- every occurrence of a name (guards      *)
(*                     included) is renamed like its definition -- and is  *)
(*                     injective                                           *)
(*   AsAsked           a name of B is renamed iff it clashes with a name   *)
(*                     of A and the predicate selects it; then its new     *)
(*                     name is unused by A and B.  The default predicate   *)
(*                     selects everything that is not persistent.          *)
(* Statement records: [id, deps (ids), kind, fid, skel, names (variable    *)
(* occurrences in a fixed traversal order, guard first)].                  *)
(***************************************************************************)
EXTENDS Naturals, Sequences, FiniteSets, TLC, Json, IOUtils

Cases == JsonDeserialize(IOEnv.CASES)

VARIABLES cid
vars == <<cid>>
Init == cid \in DOMAIN Cases
Next == UNCHANGED cid

SA == Cases[cid].a
SB == Cases[cid].b
SF == Cases[cid].fused
WA == Cases[cid].wa          \* WA[k] = position in SF of the image of SA[k]
WB == Cases[cid].wb
SeqSet(s) == {s[k] : k \in DOMAIN s}

\* the renaming predicate: <<"default">> | <<"none">> (rename nothing) | <<"all">> | <<"only", name>>
Pers == SeqSet(Cases[cid].persistent)
Selected(v) ==
    LET p == Cases[cid].pred IN
      IF p[1] = "default" THEN v \notin Pers
      ELSE IF p[1] = "none" THEN FALSE
      ELSE IF p[1] = "all" THEN TRUE
      ELSE v = p[2]

NamesOf(S) == UNION {SeqSet(S[k].names) : k \in DOMAIN S}

IdsUniqueStrict == \A i, j \in DOMAIN SF : i # j => SF[i].id # SF[j].id

CompleteStrict ==
    /\ Len(WA) = Len(SA) /\ Len(WB) = Len(SB)
    /\ SeqSet(WA) \cup SeqSet(WB) = DOMAIN SF
    /\ Len(SF) = Len(SA) + Len(SB)

ImgId(S, W, id) == SF[W[CHOOSE k \in DOMAIN S : S[k].id = id]].id
DepsIntactStrict ==
    /\ \A k \in DOMAIN SA : SeqSet(SF[WA[k]].deps) = {ImgId(SA, WA, d) : d \in SeqSet(SA[k].deps)}
    /\ \A k \in DOMAIN SB : SeqSet(SF[WB[k]].deps) = {ImgId(SB, WB, d) : d \in SeqSet(SB[k].deps)}

SameShapeStrict ==
    /\ \A k \in DOMAIN SA : /\ SF[WA[k]].id = SA[k].id /\ SF[WA[k]].names = SA[k].names
                            /\ SF[WA[k]].skel = SA[k].skel /\ SF[WA[k]].kind = SA[k].kind /\ SF[WA[k]].fid = SA[k].fid
    /\ \A k \in DOMAIN SB : /\ SF[WB[k]].skel = SB[k].skel /\ SF[WB[k]].kind = SB[k].kind /\ SF[WB[k]].fid = SB[k].fid
                            /\ Len(SF[WB[k]].names) = Len(SB[k].names)

\* pairs <<old, new>> read off every occurrence in B
Pairs == UNION {{<<SB[k].names[j], SF[WB[k]].names[j]>> : j \in DOMAIN SB[k].names} : k \in DOMAIN SB}
RenamingFunctionStrict ==
    /\ \A p, q \in Pairs : p[1] = q[1] => p[2] = q[2]
    /\ \A p, q \in Pairs : p[2] = q[2] => p[1] = q[1]

AsAskedStrict ==
    \A p \in Pairs :
        IF p[1] \in NamesOf(SA) /\ Selected(p[1])
        THEN p[2] # p[1] /\ p[2] \notin NamesOf(SA) /\ p[2] \notin NamesOf(SB)
        ELSE p[2] = p[1]

\* fusing leaves the two method descriptions it was given as they were
InputsUnchangedStrict == Cases[cid].a_after = Cases[cid].a /\ Cases[cid].b_after = Cases[cid].b

Rep(name, ok) == ok \/ PrintT(<<"BAD", cid, name>>)
IdsUnique        == Rep("IdsUnique", IdsUniqueStrict)
InputsUnchanged  == Rep("InputsUnchanged", InputsUnchangedStrict)
Complete         == Rep("Complete", CompleteStrict)
DepsIntact       == ~CompleteStrict \/ Rep("DepsIntact", DepsIntactStrict)
SameShape        == ~CompleteStrict \/ Rep("SameShape", SameShapeStrict)
RenamingFunction == ~(CompleteStrict /\ SameShapeStrict) \/ Rep("RenamingFunction", RenamingFunctionStrict)
AsAsked          == ~(CompleteStrict /\ SameShapeStrict) \/ Rep("AsAsked", AsAskedStrict)
=============================================================================
