CONSTANTS
  MaxN = 5
  MaxReq = 2
  MaxSteps = 2
  MoveRequested = TRUE
SPECIFICATION LiveSpec
CHECK_DEADLOCK FALSE
PROPERTY StepEnds
PROPERTY AllStepsTaken
PROPERTY StepVariant
