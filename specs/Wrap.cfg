INIT Init
NEXT Next
CHECK_DEADLOCK FALSE
INVARIANT TokensPreserved
INVARIANT NoStringSplit
INVARIANT FitsWidth
INVARIANT Continuation
INVARIANT SameSyntaxTree
