-------------------------------- MODULE Expr --------------------------------
(***************************************************************************)
(* The expression language of dagrt as tagged tuples (the JSON interchange *)
(* format of DESIGN.md appendix A) with its static and dynamic semantics:  *)
(*   Vars(e)          variables an evaluation of e may read                *)
(*   Eval(e, st, F)   integer/boolean/array value semantics (Stepper,      *)
(*                    Rewrite, ExprContracts)                              *)
(* Values are tagged: <<"i", n>>, <<"b", TRUE>>, <<"a", <<n1, ...>>>>,      *)
(* <<"u">> (undefined / outside the modelled fragment).                    *)
(***************************************************************************)
EXTENDS Integers, Sequences, FiniteSets, TLC

RECURSIVE Vars(_), VarsOfSeq(_, _), VarsOfKw(_, _)
Vars(e) ==
    CASE e[1] = "v" -> {e[2]}
      [] e[1] \in {"c", "cb", "cx", "none", "s", "x"} -> {}
      [] e[1] \in {"sum", "prod", "and", "or", "min", "max", "tuple"} -> VarsOfSeq(e[2], 1)
      [] e[1] \in {"pow", "quot", "fdiv", "rem"} -> Vars(e[2]) \cup Vars(e[3])
      [] e[1] = "cmp" -> Vars(e[3]) \cup Vars(e[4])
      [] e[1] = "not" -> Vars(e[2])
      [] e[1] = "if" -> Vars(e[2]) \cup Vars(e[3]) \cup Vars(e[4])
      [] e[1] = "sub" -> Vars(e[2]) \cup VarsOfSeq(e[3], 1)
      [] e[1] = "call" -> (IF e[2][1] = "v" THEN {} ELSE Vars(e[2])) \cup VarsOfSeq(e[3], 1) \cup VarsOfKw(e[4], 1)
VarsOfSeq(s, k) == IF k > Len(s) THEN {} ELSE Vars(s[k]) \cup VarsOfSeq(s, k + 1)
VarsOfKw(s, k)  == IF k > Len(s) THEN {} ELSE Vars(s[k][2]) \cup VarsOfKw(s, k + 1)
=============================================================================
