-------------------------------- MODULE Expr --------------------------------
(***************************************************************************)
(* The expression language of dagrt as tagged tuples (the JSON interchange *)
(* format of DESIGN.md appendix A) with its static and dynamic semantics:  *)
(*   Vars(e)          variables an evaluation of e may read                *)
(*   Eval(e, st)      integer / boolean / integer-array value semantics    *)
(*                    (used by Stepper, Rewrite, ExprContracts)            *)
(* Values are tagged: <<"i", n>>, <<"b", TRUE>>, <<"a", <<n1, ...>>>>,      *)
(* <<"n">> (None) and U = <<"u">>: undefined or outside the modelled       *)
(* fragment (floats, overflow, out-of-range index, type confusion).  U is  *)
(* strict: it propagates through every operator that looks at it.          *)
(***************************************************************************)
EXTENDS Integers, Sequences, FiniteSets, TLC

RECURSIVE Vars(_), VarsOfSeq(_, _), VarsOfKw(_, _)
Vars(e) ==
    CASE e[1] = "v" -> {e[2]}
      [] e[1] \in {"c", "cb", "cx", "none", "s", "x"} -> {}
      [] e[1] \in {"sum", "prod", "and", "or", "min", "max", "tuple", "nparr"} -> VarsOfSeq(e[2], 1)
      [] e[1] \in {"pow", "quot", "fdiv", "rem"} -> Vars(e[2]) \cup Vars(e[3])
      [] e[1] = "cmp" -> Vars(e[3]) \cup Vars(e[4])
      [] e[1] = "not" -> Vars(e[2])
      [] e[1] = "if" -> Vars(e[2]) \cup Vars(e[3]) \cup Vars(e[4])
      [] e[1] = "sub" -> Vars(e[2]) \cup VarsOfSeq(e[3], 1)
      [] e[1] = "call" -> (IF e[2][1] = "v" THEN {} ELSE Vars(e[2])) \cup VarsOfSeq(e[3], 1) \cup VarsOfKw(e[4], 1)
VarsOfSeq(s, k) == IF k > Len(s) THEN {} ELSE Vars(s[k]) \cup VarsOfSeq(s, k + 1)
VarsOfKw(s, k)  == IF k > Len(s) THEN {} ELSE Vars(s[k][2]) \cup VarsOfKw(s, k + 1)

\* every name an expression mentions, function symbols included (C18: a function symbol may be declared free)
RECURSIVE Names(_), NamesOfSeq(_, _), NamesOfKw(_, _)
Names(e) ==
    CASE e[1] = "v" -> {e[2]}
      [] e[1] \in {"c", "cb", "cx", "none", "s", "x"} -> {}
      [] e[1] \in {"sum", "prod", "and", "or", "min", "max", "tuple", "nparr"} -> NamesOfSeq(e[2], 1)
      [] e[1] \in {"pow", "quot", "fdiv", "rem"} -> Names(e[2]) \cup Names(e[3])
      [] e[1] = "cmp" -> Names(e[3]) \cup Names(e[4])
      [] e[1] = "not" -> Names(e[2])
      [] e[1] = "if" -> Names(e[2]) \cup Names(e[3]) \cup Names(e[4])
      [] e[1] = "sub" -> Names(e[2]) \cup NamesOfSeq(e[3], 1)
      [] e[1] = "call" -> Names(e[2]) \cup NamesOfSeq(e[3], 1) \cup NamesOfKw(e[4], 1)
NamesOfSeq(s, k) == IF k > Len(s) THEN {} ELSE Names(s[k]) \cup NamesOfSeq(s, k + 1)
NamesOfKw(s, k)  == IF k > Len(s) THEN {} ELSE Names(s[k][2]) \cup NamesOfKw(s, k + 1)

----------------------------------------------------------------------------
U == <<"u">>
None == <<"n">>
I(n) == <<"i", n>>
B(b) == <<"b", b>>
A(s) == <<"a", s>>
IsI(v) == v[1] = "i"
IsB(v) == v[1] = "b"
IsA(v) == v[1] = "a"
UndefElem == -99999            \* element of an array created by array(n) and not yet assigned
Big == 30000                   \* magnitudes beyond this leave the fragment (32-bit TLC integers)
Small(n) == n >= -Big /\ n <= Big
Abs(n) == IF n < 0 THEN -n ELSE n
Clip(n) == IF Small(n) THEN I(n) ELSE U

RECURSIVE PowInt(_, _)
PowInt(b, k) == IF k = 0 THEN 1 ELSE b * PowInt(b, k - 1)

\* the fixed table of function meanings shared with the harness (harness/funcs.py)
KwGet(kw, name, dflt) == IF \E k \in DOMAIN kw : kw[k][1] = name
                         THEN kw[CHOOSE k \in DOMAIN kw : kw[k][1] = name][2] ELSE dflt
AllInts(s) == \A k \in DOMAIN s : IsI(s[k])
ElemsDefined(a) == \A k \in DOMAIN a : a[k] # UndefElem
RECURSIVE SumSeq(_, _), MaxAbs(_, _), Dot(_, _, _)
SumSeq(s, k) == IF k > Len(s) THEN 0 ELSE s[k] + SumSeq(s, k + 1)
MaxAbs(s, k) == IF k > Len(s) THEN 0 ELSE LET r == MaxAbs(s, k + 1) IN IF Abs(s[k]) > r THEN Abs(s[k]) ELSE r
Dot(x, y, k) == IF k > Len(x) THEN 0 ELSE x[k] * y[k] + Dot(x, y, k + 1)

\* numpy-style broadcasting of integer scalars against integer vectors of one common length
IsVec(v) == IsA(v) /\ ElemsDefined(v[2])
Broadcastable(vs) ==
    /\ \A k \in DOMAIN vs : IsI(vs[k]) \/ IsVec(vs[k])
    /\ \E k \in DOMAIN vs : IsVec(vs[k])
    /\ \A k, m \in DOMAIN vs : (IsVec(vs[k]) /\ IsVec(vs[m])) => Len(vs[k][2]) = Len(vs[m][2])
VecLen(vs) == Len(vs[CHOOSE k \in DOMAIN vs : IsA(vs[k])][2])
Elem(v, j) == IF IsI(v) THEN v[2] ELSE v[2][j]

\* a second interpretation of the user function symbols ("for all interpretations" is sampled by two)
ApplyAlt(f, args, kw) ==
    CASE f = "<func>f" ->
            IF Len(args) = 1 /\ IsI(args[1]) /\ IsI(KwGet(kw, "k", I(0))) /\ IsI(KwGet(kw, "m", I(0))) /\ Abs(args[1][2]) <= 1000
            THEN Clip(args[1][2] * args[1][2] - 3 * KwGet(kw, "k", I(0))[2] + 7 * KwGet(kw, "m", I(0))[2] + 2) ELSE U
      [] f = "<func>g" ->
            IF Len(args) = 2 /\ AllInts(args) THEN Clip(5 * args[1][2] - 2 * args[2][2] + 7) ELSE U
      [] OTHER -> U

\* result of a call: a value, or a tuple of values <<"t", <<v1, v2>>>> for multi-result functions
Apply(f, args, kw) ==
    CASE f = "<func>f" ->
            IF Len(args) = 1 /\ IsI(args[1]) /\ IsI(KwGet(kw, "k", I(0))) /\ IsI(KwGet(kw, "m", I(0)))
            THEN Clip(2 * args[1][2] + KwGet(kw, "k", I(0))[2] + 5 * KwGet(kw, "m", I(0))[2] + 1) ELSE U
      [] f = "<func>g" ->
            IF Len(args) = 2 /\ AllInts(args) /\ Abs(args[1][2]) <= 1000 /\ Abs(args[2][2]) <= 1000
            THEN Clip(args[1][2] * args[2][2] - args[1][2] + 3) ELSE U
      [] f = "<func>g2" ->
            IF Len(args) = 1 /\ IsI(args[1]) /\ Abs(args[1][2]) <= 1000
            THEN <<"t", <<I(args[1][2] + 1), I(3 * args[1][2])>>>> ELSE U
      [] f = "<builtin>len" ->
            LET x == IF Len(args) = 1 THEN args[1] ELSE KwGet(kw, "x", U) IN
              IF IsA(x) THEN I(Len(x[2])) ELSE IF IsI(x) THEN I(1) ELSE U
      [] f = "<builtin>array" ->
            LET n == IF Len(args) = 1 THEN args[1] ELSE KwGet(kw, "n", U) IN
              IF IsI(n) /\ n[2] >= 0 /\ n[2] <= 8 THEN A([k \in 1..n[2] |-> UndefElem]) ELSE U
      [] f = "<builtin>norm_inf" ->
            LET x == IF Len(args) = 1 THEN args[1] ELSE KwGet(kw, "x", U) IN
              IF IsA(x) /\ ElemsDefined(x[2]) /\ Len(x[2]) > 0 THEN I(MaxAbs(x[2], 1))
              ELSE IF IsI(x) THEN I(Abs(x[2])) ELSE U
      [] f = "<builtin>dot_product" ->
            LET x == IF Len(args) >= 1 THEN args[1] ELSE KwGet(kw, "x", U)
                y == IF Len(args) >= 2 THEN args[2] ELSE KwGet(kw, "y", U) IN
              IF IsA(x) /\ IsA(y) /\ Len(x[2]) = Len(y[2]) /\ ElemsDefined(x[2]) /\ ElemsDefined(y[2])
                 /\ (\A k \in DOMAIN x[2] : Abs(x[2][k]) <= 100 /\ Abs(y[2][k]) <= 100)
              THEN I(Dot(x[2], y[2], 1)) ELSE U
      [] f = "<builtin>elementwise_abs" ->
            LET x == IF Len(args) = 1 THEN args[1] ELSE KwGet(kw, "x", U) IN
              IF IsA(x) /\ ElemsDefined(x[2]) THEN A([k \in DOMAIN x[2] |-> Abs(x[2][k])])
              ELSE IF IsI(x) THEN I(Abs(x[2])) ELSE U
      [] f = "<func>rhs" ->                                     \* rhs(t, y) = -2*y + t on vectors
            IF Len(args) = 2 /\ IsI(args[1]) /\ IsVec(args[2]) /\ Abs(args[1][2]) <= 1000
               /\ (\A j \in DOMAIN args[2][2] : Abs(args[2][2][j]) <= 10000)
            THEN A([j \in DOMAIN args[2][2] |-> -2 * args[2][2][j] + args[1][2]]) ELSE U
      [] f = "<func>h2" ->                                      \* h2(x, y) = (x + 1, 2*y)
            IF Len(args) = 2 /\ AllInts(args) /\ Abs(args[2][2]) <= 10000
            THEN <<"t", <<Clip(args[1][2] + 1), Clip(2 * args[2][2])>>>> ELSE U
      [] f \in {"min", "max"} -> <<"e", "call of an unknown function">>   \* a Call node, not a Min/Max node
      [] OTHER -> U

RECURSIVE Eval(_, _), EvalSeq(_, _, _), EvalKw(_, _, _), EvalAnd(_, _, _), EvalOr(_, _, _)
EvalSeq(s, st, k) == IF k > Len(s) THEN <<>> ELSE <<Eval(s[k], st)>> \o EvalSeq(s, st, k + 1)
EvalKw(s, st, k)  == IF k > Len(s) THEN <<>> ELSE <<<<s[k][1], Eval(s[k][2], st)>>>> \o EvalKw(s, st, k + 1)
\* and / or evaluate left to right and stop early (Python's all()/any() on a generator)
EvalAnd(s, st, k) == IF k > Len(s) THEN B(TRUE)
                     ELSE LET v == Eval(s[k], st) IN
                          IF ~IsB(v) THEN U ELSE IF ~v[2] THEN B(FALSE) ELSE EvalAnd(s, st, k + 1)
EvalOr(s, st, k)  == IF k > Len(s) THEN B(FALSE)
                     ELSE LET v == Eval(s[k], st) IN
                          IF ~IsB(v) THEN U ELSE IF v[2] THEN B(TRUE) ELSE EvalOr(s, st, k + 1)
MinOf(s) == CHOOSE m \in {s[k][2] : k \in DOMAIN s} : \A k \in DOMAIN s : m <= s[k][2]
MaxOf(s) == CHOOSE m \in {s[k][2] : k \in DOMAIN s} : \A k \in DOMAIN s : m >= s[k][2]
RECURSIVE ProdSeq(_, _)
ProdSeq(s, k) == IF k > Len(s) THEN 1 ELSE s[k][2] * ProdSeq(s, k + 1)
RECURSIVE SafeProd(_, _, _)
\* product with a magnitude check before every multiplication
SafeProd(s, k, acc) == IF k > Len(s) THEN I(acc)
                       ELSE IF ~Small(acc * s[k][2]) THEN U ELSE SafeProd(s, k + 1, acc * s[k][2])

Eval(e, st) ==
    CASE e[1] = "c" -> Clip(e[2])
      [] e[1] = "cb" -> B(e[2])
      [] e[1] = "v" -> IF e[2] \in DOMAIN st THEN st[e[2]] ELSE U
      [] e[1] = "sum" ->
            LET vs == EvalSeq(e[2], st, 1) IN
              IF AllInts(vs) THEN Clip(SumSeq([k \in DOMAIN vs |-> vs[k][2]], 1))
              ELSE IF Broadcastable(vs)
                   THEN LET r == [j \in 1..VecLen(vs) |-> SumSeq([k \in DOMAIN vs |-> Elem(vs[k], j)], 1)] IN
                          IF \A j \in DOMAIN r : Small(r[j]) THEN A(r) ELSE U
                   ELSE U
      [] e[1] = "prod" ->
            LET vs == EvalSeq(e[2], st, 1) IN
              IF AllInts(vs) /\ (\A k \in DOMAIN vs : Small(vs[k][2])) THEN SafeProd(vs, 1, 1)
              ELSE IF Broadcastable(vs) /\ (\A k \in DOMAIN vs : \A j \in 1..VecLen(vs) : Abs(Elem(vs[k], j)) <= 1000) /\ Len(vs) <= 3
                   THEN A([j \in 1..VecLen(vs) |-> ProdSeq([k \in DOMAIN vs |-> I(Elem(vs[k], j))], 1)])
                   ELSE U
      [] e[1] = "pow" ->
            LET b == Eval(e[2], st)  x == Eval(e[3], st) IN
              IF IsI(b) /\ IsI(x) /\ x[2] >= 0 /\ x[2] <= 4 /\ Abs(b[2]) <= 12 THEN I(PowInt(b[2], x[2])) ELSE U
      [] e[1] = "cmp" ->
            LET l == Eval(e[3], st)  r == Eval(e[4], st) IN
              IF IsI(l) /\ IsI(r)
              THEN B(CASE e[2] = "<"  -> l[2] < r[2]   [] e[2] = "<=" -> l[2] <= r[2]
                       [] e[2] = "==" -> l[2] = r[2]   [] e[2] = "!=" -> l[2] # r[2]
                       [] e[2] = ">=" -> l[2] >= r[2]  [] e[2] = ">"  -> l[2] > r[2])
              ELSE U
      [] e[1] = "and" -> EvalAnd(e[2], st, 1)
      [] e[1] = "or"  -> EvalOr(e[2], st, 1)
      [] e[1] = "not" -> LET v == Eval(e[2], st) IN IF IsB(v) THEN B(~v[2]) ELSE U
      [] e[1] = "if" ->
            LET c == Eval(e[2], st) IN
              IF ~IsB(c) THEN U ELSE IF c[2] THEN Eval(e[3], st) ELSE Eval(e[4], st)
      [] e[1] = "min" -> LET vs == EvalSeq(e[2], st, 1) IN IF AllInts(vs) /\ vs # <<>> THEN I(MinOf(vs)) ELSE U
      [] e[1] = "max" -> LET vs == EvalSeq(e[2], st, 1) IN IF AllInts(vs) /\ vs # <<>> THEN I(MaxOf(vs)) ELSE U
      [] e[1] = "sub" ->
            LET a == Eval(e[2], st)
                ix == IF Len(e[3]) = 1 THEN Eval(e[3][1], st) ELSE U IN
              IF IsA(a) /\ IsI(ix) /\ ix[2] >= 0 /\ ix[2] < Len(a[2]) /\ a[2][ix[2] + 1] # UndefElem
              THEN I(a[2][ix[2] + 1]) ELSE U
      [] e[1] = "call" ->
            IF e[2][1] # "v" THEN U
            ELSE LET args == EvalSeq(e[3], st, 1)  kw == EvalKw(e[4], st, 1) IN
                   IF (\E k \in DOMAIN args : args[k] = U) \/ (\E k \in DOMAIN kw : kw[k][2] = U) THEN U
                   ELSE IF "$F" \in DOMAIN st /\ e[2][2] \in {"<func>f", "<func>g"} THEN ApplyAlt(e[2][2], args, kw)
                   ELSE Apply(e[2][2], args, kw)
      [] OTHER -> U

----------------------------------------------------------------------------
\* substitution of expressions for variables: sigma is a sequence of <<name, expression>>
Bound(sigma, v) == \E k \in DOMAIN sigma : sigma[k][1] = v
Image(sigma, v) == sigma[CHOOSE k \in DOMAIN sigma : sigma[k][1] = v][2]
RECURSIVE Subst(_, _), SubstSeq(_, _), SubstKw(_, _)
SubstSeq(s, sigma) == [k \in DOMAIN s |-> Subst(s[k], sigma)]
SubstKw(s, sigma)  == [k \in DOMAIN s |-> <<s[k][1], Subst(s[k][2], sigma)>>]
Subst(e, sigma) ==
    CASE e[1] = "v" -> IF Bound(sigma, e[2]) THEN Image(sigma, e[2]) ELSE e
      [] e[1] \in {"c", "cb", "cx", "none", "s", "x"} -> e
      [] e[1] \in {"sum", "prod", "and", "or", "min", "max", "tuple"} -> <<e[1], SubstSeq(e[2], sigma)>>
      [] e[1] \in {"pow", "quot", "fdiv", "rem"} -> <<e[1], Subst(e[2], sigma), Subst(e[3], sigma)>>
      [] e[1] = "cmp" -> <<"cmp", e[2], Subst(e[3], sigma), Subst(e[4], sigma)>>
      [] e[1] = "not" -> <<"not", Subst(e[2], sigma)>>
      [] e[1] = "if" -> <<"if", Subst(e[2], sigma), Subst(e[3], sigma), Subst(e[4], sigma)>>
      [] e[1] = "sub" -> <<"sub", Subst(e[2], sigma), SubstSeq(e[3], sigma)>>
      [] e[1] = "call" -> <<"call", Subst(e[2], sigma), SubstSeq(e[3], sigma), SubstKw(e[4], sigma)>>
=============================================================================
