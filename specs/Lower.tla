------------------------------- MODULE Lower -------------------------------
(***************************************************************************)
(* Contract for C05: the structured program obtained from a phase          *)
(* executes, under every valuation of the guards, exactly the non-no-op    *)
(* statements whose guard holds, each once, inside exactly its declared    *)
(* loops, in an order consistent with the dependency edges; and it does    *)
(* not depend on how the phase's statements were stored.                   *)
(*                                                                         *)
(* Each case: the statements of a phase (ids 1..n) and the trees that the  *)
(* REAL create_ast_from_phase returned for several presentations of the    *)
(* same phase (permuted lists, frozenset, other hash seeds).               *)
(***************************************************************************)
EXTENDS Tree, FiniteSets, TLC, Json, IOUtils

Cases == JsonDeserialize(IOEnv.CASES)

VARIABLES cid, val
vars == <<cid, val>>

St(c)   == Cases[c].stmts
NSt(c)  == Len(St(c))
SeqSet(s) == {s[k] : k \in DOMAIN s}
GuardFlags(c) == UNION {CondFlags(St(c)[i].guard) : i \in 1..NSt(c)}
TreeOf(c) == Cases[c].trees[1]
CaseFlags(c) == GuardFlags(c) \cup Flags(TreeOf(c))

Init == cid \in DOMAIN Cases /\ val = <<>>
ChooseVal == val = <<>> /\ val' \in [CaseFlags(cid) -> BOOLEAN] /\ val' # <<>> /\ UNCHANGED cid
Next == ChooseVal

Ready == val # <<>> \/ CaseFlags(cid) = {}

\* transitive closure of the dependency edges (a no-op or a disabled statement still orders
\* what comes before it and what comes after it)
RECURSIVE Anc(_, _)
Anc(c, S) == LET D == UNION {SeqSet(St(c)[s].deps) : s \in S} IN
               IF D \subseteq S THEN S ELSE Anc(c, S \cup D)
Before(c, a, b) == a # b /\ a \in Anc(c, {b})          \* a must precede b

Enabled(c) == {i \in 1..NSt(c) : ~St(c)[i].nop /\ CondHolds(St(c)[i].guard, val)}

TheRun == Run(TreeOf(cid), val, <<>>)

\* the executions of statement i, in order, as iteration vectors
ItersOf(i) == LET pos == {p \in DOMAIN TheRun : TheRun[p][1] = i}
                  RECURSIVE Collect(_)
                  Collect(p) == IF p > Len(TheRun) THEN <<>>
                                ELSE IF p \in pos THEN <<LoopIter(TheRun[p][2])>> \o Collect(p + 1) ELSE Collect(p + 1)
              IN Collect(1)
\* one execution of a statement with k loops = its 2^k iteration vectors, each once, in lexicographic order
RECURSIVE FullNest(_)
FullNest(k) == IF k = 0 THEN << <<>> >>
               ELSE LET r == FullNest(k - 1) IN
                    [j \in 1..(2 * Len(r)) |-> IF j <= Len(r) THEN <<1>> \o r[j] ELSE <<2>> \o r[j - Len(r)]]

ExactlyEnabledOnceStrict ==
    (Cases[cid].err = "" /\ Ready) =>
        LET ids == LeafIds(TheRun) IN
          /\ SeqSet(ids) = Enabled(cid)
          /\ \A i \in Enabled(cid) : ItersOf(i) = FullNest(Len(St(cid)[i].loops))

LoopsAsDeclaredStrict ==
    (Cases[cid].err = "" /\ Ready) =>
        \A p \in DOMAIN TheRun :
            TheRun[p][1] \in 1..NSt(cid) => LoopDecl(TheRun[p][2]) = St(cid)[TheRun[p][1]].loops

DepsRespectedStrict ==
    (Cases[cid].err = "" /\ Ready) =>
        LET ids == LeafIds(TheRun) IN
          \A p, q \in DOMAIN ids :
             (ids[p] \in 1..NSt(cid) /\ ids[q] \in 1..NSt(cid) /\ Before(cid, ids[q], ids[p])) => q < p

OrderIndependentStrict ==
    val = <<>> => \A k \in DOMAIN Cases[cid].trees : Cases[cid].trees[k] = Cases[cid].trees[1]

NoErrorStrict == Cases[cid].err = ""

ExactlyEnabledOnce == ExactlyEnabledOnceStrict \/ PrintT(<<"BAD", cid, "ExactlyEnabledOnce">>)
LoopsAsDeclared    == LoopsAsDeclaredStrict \/ PrintT(<<"BAD", cid, "LoopsAsDeclared">>)
DepsRespected      == DepsRespectedStrict \/ PrintT(<<"BAD", cid, "DepsRespected">>)
OrderIndependent   == OrderIndependentStrict \/ PrintT(<<"BAD", cid, "OrderIndependent">>)
NoError            == NoErrorStrict \/ val # <<>> \/ PrintT(<<"BAD", cid, "NoError">>)
=============================================================================
