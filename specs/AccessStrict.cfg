INIT Init
NEXT Next
CHECK_DEADLOCK FALSE
INVARIANT DeclCoversStrict
INVARIANT ObservedCoveredStrict
INVARIANT IdentityStableStrict
