CONSTANTS
 MaxRuns = 2
 MaxIters = 2
INIT Init
NEXT Next
CHECK_DEADLOCK FALSE
INVARIANT SafetyStrict
INVARIANT NoLeakAtShutdownStrict
CONSTRAINT Bound
