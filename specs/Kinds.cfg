INIT Init
NEXT Next
CHECK_DEADLOCK FALSE
INVARIANT Idempotent
INVARIANT Commutative
INVARIANT Associative
INVARIANT UpdateConfluent
INVARIANT Drift
