INIT Init
NEXT Next
CHECK_DEADLOCK FALSE
INVARIANT AcceptIff
INVARIANT DocumentedError
INVARIANT ConsumersSafe
INVARIANT Count
