INIT Init
NEXT Next
CHECK_DEADLOCK FALSE
INVARIANT NoErrorStrict
INVARIANT DefBeforeUseStrict
INVARIANT SameOriginalVarsStrict
INVARIANT SameCallsStrict
INVARIANT FreshIdsStrict
