------------------------------ MODULE PhaseGen ------------------------------
(***************************************************************************)
(* Generator of hand-shaped phases for C05: a behaviour adds one statement *)
(* at a time, each with a set of dependencies among the statements already *)
(* present (so the graph is acyclic by construction and every DAG shape    *)
(* occurs), a guard from a catalogue, a loop nest from a catalogue, or as  *)
(* a no-op.  Every state is a phase; TLC enumerates them all up to MaxN.   *)
(***************************************************************************)
EXTENDS Naturals, Sequences, TLC, Json

CONSTANTS MaxN, NGuards, NLoops, FullUpTo

VARIABLES stmts   \* sequence of records [deps, guard, loops, nop]

Init == stmts = <<>>

\* above FullUpTo statements only chains/diamonds are extended: deps are "all sinks" or one node
DepChoices(n) == IF n < FullUpTo THEN SUBSET (1..n)
                 ELSE {{}} \cup {{k} : k \in 1..n} \cup {1..n}

Add(d, g, l, nop) ==
    /\ Len(stmts) < MaxN
    /\ stmts' = Append(stmts, [deps |-> d, guard |-> g, loops |-> l, nop |-> nop])

Next ==
    \E d \in DepChoices(Len(stmts)) :
        \/ Add(d, 0, 0, TRUE)
        \/ \E g \in 1..NGuards, l \in 1..NLoops : Add(d, g, l, FALSE)

Spec == Init /\ [][Next]_stmts

\* sets are printed as JSON arrays
Dump == stmts = <<>> \/ PrintT("GEN " \o ToJson(stmts))
=============================================================================
