INIT Init
NEXT Next
CHECK_DEADLOCK FALSE
INVARIANT NoError
INVARIANT DefBeforeUse
INVARIANT SameOriginalVars
INVARIANT SameCalls
INVARIANT FreshIds
INVARIANT Vacuity
