----------------------------- MODULE KindValues -----------------------------
(***************************************************************************)
(* Contract for C09: the kind table computed by the REAL kind inference    *)
(* admits every value the REAL interpreter stores.                         *)
(* A case: the table (variable -> kind name, "" = no entry), the variables *)
(* the program assigns, and the store events <<variable, value class>>     *)
(* recorded while the interpreter ran one step.  Value classes: "bool",    *)
(* "int", "real", "complex", "rarray", "carray", "ut:<id>", "other:<x>".   *)
(*   EveryAssignedHasKind   each assigned variable has a (non-None) kind   *)
(*   KindAdmitsValue        Admits(kind, class) for every store event      *)
(* Admits is lenient where the property is silent: an integer is a real    *)
(* scalar, "not definitely real" admits real values.                       *)
(***************************************************************************)
EXTENDS Naturals, Sequences, TLC, Json, IOUtils

Cases == JsonDeserialize(IOEnv.CASES)
VARIABLES cid, pos
vars == <<cid, pos>>

Tab == Cases[cid].table            \* sequence of <<variable, kind name>>
Ev  == Cases[cid].stores           \* sequence of <<variable, class>>
KindOf(v) == IF \E k \in DOMAIN Tab : Tab[k][1] = v
             THEN Tab[CHOOSE k \in DOMAIN Tab : Tab[k][1] = v][2] ELSE ""

Admits(kind, class) ==
    CASE kind = "Boolean"  -> class = "bool"
      [] kind = "Integer"  -> class \in {"int", "bool"}
      [] kind = "Scalar_r" -> class \in {"int", "real", "bool"}
      [] kind = "Scalar_c" -> class \in {"int", "real", "complex", "bool"}
      [] kind = "Array_r"  -> class = "rarray"
      [] kind = "Array_c"  -> class \in {"rarray", "carray"}
      [] OTHER -> class = kind          \* "ut:<id>" must match the UserType identifier exactly; "" / "None" admit nothing

Init == cid \in DOMAIN Cases /\ pos = 0
\* one store event after the other
Step == pos < Len(Ev) /\ pos' = pos + 1 /\ UNCHANGED cid
Next == Step

EveryAssignedHasKindStrict ==
    \A k \in DOMAIN Cases[cid].assigned : KindOf(Cases[cid].assigned[k]) \notin {"", "None"}
KindAdmitsValueStrict ==
    pos = 0 \/ KindOf(Ev[pos][1]) \in {"", "None"} \/ Admits(KindOf(Ev[pos][1]), Ev[pos][2])

EveryAssignedHasKind == pos # 0 \/ EveryAssignedHasKindStrict \/ PrintT(<<"BAD", cid, "EveryAssignedHasKind", 0>>)
KindAdmitsValue == KindAdmitsValueStrict \/ PrintT(<<"BAD", cid, "KindAdmitsValue", pos>>)
=============================================================================
