-------------------------- MODULE TraceController --------------------------
(***************************************************************************)
(* Trace validation for C04.  Each case of the batch is a dependency graph *)
(* and the callbacks that the REAL dagrt.language.ExecutionController made  *)
(* on a recording target over one or more steps (harness/c04.py).  Every    *)
(* recorded visit must be a step the contract (ControllerBase) allows; the  *)
(* first event that is not allowed is reported with the violated clause.    *)
(*                                                                         *)
(* In addition (drift only, never a verdict) the recorded plan after each   *)
(* callback must be one of the plans the as-coded model (Controller) can    *)
(* produce -- TLC infers the iteration order of the unordered containers.   *)
(***************************************************************************)
EXTENDS Controller, Json, IOUtils

Cases == JsonDeserialize(IOEnv.CASES)

VARIABLES cid, pos, verdict, drift

tvars == <<vars, cid, pos, verdict, drift>>

Ev == Cases[cid].events
SeqSet(s) == {s[k] : k \in DOMAIN s}

TInit ==
    /\ cid \in DOMAIN Cases
    /\ nst = Cases[cid].n
    /\ deps = [i \in 1..Cases[cid].n |-> SeqSet(Cases[cid].deps[i])]
    /\ executed = {} /\ pending = <<>> /\ cut = FALSE /\ log = <<>>
    /\ plan = <<>> /\ planned = {}
    /\ phase = "idle" /\ nreq = 0 /\ nsteps = 0 /\ ok = TRUE
    /\ pos = 1 /\ verdict = "" /\ drift = FALSE

\* the set of all plans of the as-coded model grows factorially: compare small graphs only
DriftChecked == nst <= 5

Live == verdict = "" /\ pos <= Len(Ev)

TBegin ==
    /\ Live /\ Ev[pos].ev = "begin"
    /\ AbsReset
    /\ plan' = Ev[pos].plan /\ planned' = SeqSet(Ev[pos].plan)
    /\ drift' = (drift \/ (DriftChecked /\ Ev[pos].plan \notin UpdatePlans(Sinks, {}, {})))
    /\ phase' = "run" /\ nreq' = 0 /\ nsteps' = nsteps + 1
    /\ pos' = pos + 1
    /\ UNCHANGED <<nst, deps, ok, cid, verdict>>

TPop ==
    /\ Live /\ Ev[pos].ev = "pop"
    /\ LET e == Ev[pos]
           s == e.s
           R == IF e.g /\ ~e.cut THEN SeqSet(e.req) ELSE {}
           ex == executed \cup {s}
           pl == planned \ {s}
           modelPlans == IF plan = <<>> \/ Head(plan) # s THEN {}
                         ELSE IF R = {} THEN {Tail(plan)}
                         ELSE {ep \o Without(Tail(plan), Range(ep)) : ep \in UpdatePlans(R, ex, pl)}
       IN
         IF VisitAllowed(s)
         THEN /\ AbsVisit(s, R)
              /\ cut' = (e.g /\ e.cut)
              /\ plan' = e.plan /\ planned' = SeqSet(e.plan)
              /\ drift' = (drift \/ (DriftChecked /\ e.plan \notin modelPlans))
              /\ verdict' = verdict
              /\ pos' = pos + 1
         ELSE /\ verdict' = Clause(s)
              /\ UNCHANGED <<executed, pending, cut, log, plan, planned, drift, pos>>
    /\ UNCHANGED <<nst, deps, phase, nreq, nsteps, ok, cid>>

TEnd ==
    /\ Live /\ Ev[pos].ev = "end"
    /\ IF EndAllowed
       THEN verdict' = verdict /\ pos' = pos + 1
       ELSE verdict' = EndClause /\ pos' = pos
    /\ UNCHANGED <<vars, cid, drift>>

TNext == TBegin \/ TPop \/ TEnd

\* reporting
Verdict == verdict = "" \/ PrintT(<<"BAD", cid, pos, verdict>>)
Consumed == (pos <= Len(Ev)) \/ PrintT(<<"ACC", cid, drift>>)
KnownEvents == Live => Ev[pos].ev \in {"begin", "pop", "end"}
VerdictStrict == verdict = ""
=============================================================================
