CONSTANTS
  MaxTokens = 5
  MaxKids = 3
  NConds = 6
  MaxDepth = 3
INIT Init
NEXT Next
CHECK_DEADLOCK FALSE
INVARIANT Dump
