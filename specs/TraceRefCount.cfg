CONSTANTS
 MaxRuns = 9
 MaxIters = 12
INIT TInit
NEXT TNext
CHECK_DEADLOCK FALSE
INVARIANT Accept
INVARIANT ModelErrorOnMatchedPath
CONSTRAINT TBound
