-------------------------------- MODULE Names --------------------------------
(***************************************************************************)
(* Contract for C13 and trace validation of the real name managers.        *)
(*                                                                         *)
(* Abstract state: map (the identifier handed out for each <<ns, key>>)    *)
(* and taken (identifiers in use, case-folded where the target compares    *)
(* identifiers case-insensitively).  A lookup may                          *)
(*   - repeat the identifier handed out before for the same key  (Stable)  *)
(*   - or hand out a new one that is Legal for the target, not in taken    *)
(*     (Injective), not an identifier the generator keeps for itself       *)
(*     (NotReserved), and placed in the right storage (StorageClass).      *)
(* HOW the identifier is derived from the key is not prescribed.           *)
(* Identifiers and keys travel as sequences of one-character strings.      *)
(***************************************************************************)
EXTENDS Naturals, Sequences, FiniteSets, TLC, Json, IOUtils

Cases == JsonDeserialize(IOEnv.CASES)
Reserved == JsonDeserialize(IOEnv.RESERVED)    \* [exact, prefix]: sequences of (lower-cased) character sequences

VARIABLES cid, pos, map, taken, verdict
vars == <<cid, pos, map, taken, verdict>>

UpperS == <<"A","B","C","D","E","F","G","H","I","J","K","L","M","N","O","P","Q","R","S","T","U","V","W","X","Y","Z">>
LowerS == <<"a","b","c","d","e","f","g","h","i","j","k","l","m","n","o","p","q","r","s","t","u","v","w","x","y","z">>
Digits == {"0","1","2","3","4","5","6","7","8","9"}
Letters == {UpperS[k] : k \in 1..26} \cup {LowerS[k] : k \in 1..26}
LowerOf(ch) == IF \E k \in 1..26 : UpperS[k] = ch
               THEN LowerS[CHOOSE k \in 1..26 : UpperS[k] = ch] ELSE ch
FoldCase(s) == [k \in DOMAIN s |-> LowerOf(s[k])]

IsPrefix(p, s) == Len(p) <= Len(s) /\ \A k \in DOMAIN p : s[k] = p[k]
Drop(s, n) == SubSeq(s, n + 1, Len(s))
Chars(str) == str     \* prefixes below are written as character sequences

Target == Cases[cid].target            \* "python" | "fortran"
Steps  == Cases[cid].steps             \* [ns, key (chars), out (chars)]

PSelf    == <<"s","e","l","f",".">>
PGlobal  == <<"s","e","l","f",".","g","l","o","b","a","l","_">>
PFuncs   == <<"s","e","l","f",".","_","f","u","n","c","t","i","o","n","s",".">>
PLocal   == <<"l","o","c","a","l">>
PState   == <<"d","a","g","r","t","_","s","t","a","t","e","%">>
PDagrt   == <<"d","a","g","r","t","_">>
SelfT    == <<"s","e","l","f",".","t">>
SelfDt   == <<"s","e","l","f",".","d","t">>
KT       == <<"<","t",">">>
KDt      == <<"<","d","t",">">>

PersistentKey(k) ==
    \/ k = KT \/ k = KDt
    \/ IsPrefix(<<"<","s","t","a","t","e",">">>, k)
    \/ IsPrefix(<<"<","p",">">>, k)
    \/ IsPrefix(<<"<","r","e","t","_">>, k)

\* the part of the identifier that has to be a name of the target language
Body(ns, out) ==
    IF Target = "python"
    THEN IF IsPrefix(PFuncs, out) THEN Drop(out, Len(PFuncs))
         ELSE IF IsPrefix(PSelf, out) THEN Drop(out, Len(PSelf)) ELSE out
    ELSE IF IsPrefix(PState, out) THEN Drop(out, Len(PState)) ELSE out

IdentChars == Letters \cup Digits \cup {"_"}
Legal(ns, out) ==
    LET b == Body(ns, out) IN
      /\ b # <<>>
      /\ \A k \in DOMAIN b : b[k] \in IdentChars
      /\ IF Target = "python" THEN b[1] \in Letters \cup {"_"}
         ELSE b[1] \in Letters /\ Len(b) <= 63

\* identifier comparison of the target
Canon(out) == IF Target = "fortran" THEN FoldCase(out) ELSE out

StorageOK(ns, key, out) ==
    IF ns # "var" THEN TRUE
    ELSE IF Target = "python"
         THEN IF PersistentKey(key)
              THEN IsPrefix(PGlobal, out) \/ out = SelfT \/ out = SelfDt
              ELSE ~IsPrefix(PSelf, out)
         ELSE IF PersistentKey(key) THEN IsPrefix(PState, out)
              ELSE \A k \in DOMAIN out : out[k] # "%"

\* identifiers the generators keep for themselves
ReservedPy == {<<"s","e","l","f">>}
NotReserved(ns, key, out) ==
    IF Target = "python"
    THEN /\ out \notin ReservedPy
         /\ (IsPrefix(PSelf, out) /\ ns = "var") => (IsPrefix(PGlobal, out) \/ (key = KT /\ out = SelfT) \/ (key = KDt /\ out = SelfDt))
         /\ (ns = "func") => IsPrefix(PFuncs, out)
    ELSE \* identifiers (exact, or by prefix) that the generator source itself uses -- collected from
         \* dagrt/codegen/fortran.py by the harness; <t>/<dt> and reference counters are the
         \* generator's own and live there on purpose
         LET b == FoldCase(Body(ns, out)) IN
           (ns \in {"var", "func", "unique"} /\ key # KT /\ key # KDt) =>
               /\ \A k \in DOMAIN Reserved.exact : Reserved.exact[k] # b
               /\ \A k \in DOMAIN Reserved.prefix : ~IsPrefix(Reserved.prefix[k], b)

Init == /\ cid \in DOMAIN Cases /\ pos = 1 /\ map = <<>> /\ taken = {} /\ verdict = ""

Known(ns, key) == \E k \in DOMAIN map : map[k][1] = ns /\ map[k][2] = key
Prev(ns, key)  == map[CHOOSE k \in DOMAIN map : map[k][1] = ns /\ map[k][2] = key][3]

Judge(ns, key, out) ==
    IF ns # "unique" /\ Known(ns, key)
    THEN (IF Prev(ns, key) = out THEN "ok" ELSE "Stable")
    ELSE IF ~Legal(ns, out) THEN "Legal"
    ELSE IF Canon(out) \in taken THEN "Injective"
    ELSE IF ~NotReserved(ns, key, out) THEN "NotReserved"
    ELSE IF ~StorageOK(ns, key, out) THEN "StorageClass"
    ELSE "ok"

\* Every recorded lookup is consumed; a lookup the contract does not allow is reported (verdict
\* names the clause) and the history goes on, so that the rest of the trace is still examined.
\* start of the next phase function (Python generator: clear_locals): the local identifiers handed out so far
\* go out of scope -- they may be reused, and a later lookup of the same key may get another identifier
IsLocalEntry(m) == m[1] = "var" /\ ~PersistentKey(m[2])
ClearStep ==
    /\ pos <= Len(Steps) /\ Steps[pos].ns = "clear"
    /\ map' = SelectSeq(map, LAMBDA m : ~IsLocalEntry(m))
    /\ taken' = taken \ {Canon(map[k][3]) : k \in {j \in DOMAIN map : IsLocalEntry(map[j])}}
    /\ pos' = pos + 1 /\ verdict' = ""
    /\ UNCHANGED cid

LookupStep ==
    /\ pos <= Len(Steps) /\ Steps[pos].ns # "clear"
    /\ LET st == Steps[pos]
           j  == Judge(st.ns, st.key, st.out)
       IN /\ map' = (IF st.ns # "unique" /\ Known(st.ns, st.key) THEN map
                     ELSE Append(map, <<st.ns, st.key, st.out>>))
          /\ taken' = taken \cup {Canon(st.out)}
          /\ pos' = pos + 1
          /\ verdict' = (IF j = "ok" THEN "" ELSE j)
    /\ UNCHANGED cid

Next == LookupStep \/ ClearStep

Verdict  == verdict = "" \/ PrintT(<<"BAD", cid, pos - 1, verdict>>)
Accepted == pos <= Len(Steps) \/ PrintT(<<"ACC", cid>>)
VerdictStrict == verdict = ""
=============================================================================
