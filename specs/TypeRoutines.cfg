INIT Init
NEXT Next
CHECK_DEADLOCK FALSE
INVARIANT NoError
INVARIANT EndState
INVARIANT Judged
