INIT Init
NEXT Next
CHECK_DEADLOCK FALSE
INVARIANT Verdict
INVARIANT Outcome
INVARIANT OnlyPersistentSurvives
INVARIANT PhaseExists
INVARIANT StepsCounted
