INIT Init
NEXT Next
CHECK_DEADLOCK FALSE
INVARIANT ScheduleIndependenceStrict
INVARIANT FenceOrderStrict
INVARIANT FreshNamesStrict
