-------------------------------- MODULE Kinds --------------------------------
(***************************************************************************)
(* The kind universe of dagrt.data and the laws of kind combination (C14). *)
(*                                                                         *)
(* Tab is the table of outcomes of the REAL dagrt.data.unify over the      *)
(* universe, recorded by harness/c14.py (81 calls): Tab[i][j] is the index *)
(* of the result in Univ, or 0 when the call raised.  TLC judges that      *)
(* recorded table:                                                         *)
(*   Idempotent   unify(a, a) = a wherever it is defined                   *)
(*   Commutative  unify(a, b) defined <=> unify(b, a) defined, same result *)
(*   Associative  both groupings of a, b, c defined together, same result  *)
(*   UpdateConfluent  the table-update rule of kind inference ("first kind *)
(*                wins, later kinds are unified in, failures are ignored") *)
(*                gives the same entry for every order in which the kinds  *)
(*                a, b, c are reported for one variable                    *)
(* UnifyModel is the as-coded transcription of unify (data.py 232-280); a  *)
(* difference from the recorded table is reported as drift, not as a       *)
(* violation.                                                              *)
(***************************************************************************)
EXTENDS Integers, Sequences, TLC, Json, IOUtils

Data == JsonDeserialize(IOEnv.CASES)
Univ == Data.univ          \* <<"None", "Boolean", "Integer", "Scalar_r", ...>>
Tab  == Data.table
NK   == Len(Univ)

VARIABLES a, b, c
vars == <<a, b, c>>

Init == a \in 1..NK /\ b \in 1..NK /\ c \in 1..NK
Next == UNCHANGED vars

U(i, j) == IF i = 0 \/ j = 0 THEN 0 ELSE Tab[i][j]       \* 0 = undefined (raised)

IdempotentStrict  == U(a, a) # 0 => U(a, a) = a
CommutativeStrict == U(a, b) = U(b, a)
AssociativeStrict == U(U(a, b), c) = U(a, U(b, c))

\* SymbolKindTable.set, as coded: cur = 0 means "no entry yet", -1 "inference failed"
\* (Data.conflict_raises = FALSE models the older rule: failure printed, first kind kept)
SetKind(cur, k) == IF cur = -1 THEN -1
                   ELSE IF cur = 0 THEN k
                   ELSE IF cur = k THEN cur
                   ELSE IF U(k, cur) = 0 THEN (IF Data.conflict_raises THEN -1 ELSE cur)
                   ELSE U(k, cur)
Fold3(x, y, z) == SetKind(SetKind(SetKind(0, x), y), z)
UpdateConfluentStrict ==
    /\ Fold3(a, b, c) = Fold3(a, c, b) /\ Fold3(a, b, c) = Fold3(b, a, c)
    /\ Fold3(a, b, c) = Fold3(b, c, a) /\ Fold3(a, b, c) = Fold3(c, a, b)
    /\ Fold3(a, b, c) = Fold3(c, b, a)

----------------------------------------------------------------------------
\* as-coded model of unify, on kind names
IsScalar(k) == k \in {"Scalar_r", "Scalar_c"}
IsArray(k)  == k \in {"Array_r", "Array_c"}
IsUser(k)   == k \in {"UserType_u", "UserType_v"}
Real(k)     == k \in {"Scalar_r", "Array_r"}
Arr(r)      == IF r THEN "Array_r" ELSE "Array_c"
Sca(r)      == IF r THEN "Scalar_r" ELSE "Scalar_c"
UnifyModel(x, y) ==
    IF x = "None" THEN y
    ELSE IF y = "None" THEN x
    ELSE IF x = "Boolean" \/ y = "Boolean" THEN "ERR"
    ELSE IF IsUser(x) THEN
        (IF IsUser(y) THEN (IF x = y THEN x ELSE "ERR")
         ELSE IF IsScalar(y) \/ (Data.integer_absorbed /\ y = "Integer") THEN x ELSE "ERR")
    ELSE IF IsArray(x) THEN
        (IF IsArray(y) \/ IsScalar(y) THEN Arr(Real(x) /\ Real(y))
         ELSE IF Data.integer_absorbed /\ y = "Integer" THEN x ELSE "ERR")
    ELSE IF IsScalar(x) THEN
        (IF IsUser(y) THEN y
         ELSE IF IsArray(y) THEN Arr(Real(x) /\ Real(y))
         ELSE IF y = "Integer" THEN x
         ELSE Sca(Real(x) /\ Real(y)))
    ELSE \* Integer
        (IF IsUser(y) \/ IsScalar(y) \/ IsArray(y) THEN y ELSE "Integer")
Name(i) == IF i = 0 THEN "ERR" ELSE Univ[i]
ModelAgrees == UnifyModel(Univ[a], Univ[b]) = Name(U(a, b))

Idempotent  == IdempotentStrict \/ PrintT(<<"BAD", 1, "Idempotent", Univ[a]>>)
Commutative == CommutativeStrict \/ PrintT(<<"BAD", 1, "Commutative", Univ[a], Univ[b]>>)
Associative == AssociativeStrict \/ PrintT(<<"BAD", 1, "Associative", Univ[a], Univ[b], Univ[c]>>)
UpdateConfluent == UpdateConfluentStrict \/ PrintT(<<"BAD", 1, "UpdateConfluent", Univ[a], Univ[b], Univ[c]>>)
Drift == ModelAgrees \/ c # 1 \/ PrintT(<<"DRIFT", 1, Univ[a], Univ[b], UnifyModel(Univ[a], Univ[b]), Name(U(a, b))>>)
=============================================================================
