------------------------------ MODULE WrapGen ------------------------------
(* Generator for C20: a code line is a sequence of fragments from a catalogue
   (identifiers, operators, quoted strings with single and double blanks, quotes
   opening mid-word, over-long tokens); TLC enumerates every sequence up to MaxFrags. *)
EXTENDS Naturals, Sequences, TLC, Json
CONSTANTS NFrags, MaxFrags
VARIABLES frags
Init == frags = <<>>
Next == /\ Len(frags) < MaxFrags
        /\ \E k \in 1..NFrags : frags' = Append(frags, k)
Spec == Init /\ [][Next]_frags
Dump == frags = <<>> \/ PrintT("GEN " \o ToJson(frags))
=============================================================================
