------------------------------- MODULE Stepper -------------------------------
(***************************************************************************)
(* Reference semantics of a method description and trace validation of the *)
(* steppers (C01, C03, C11).                                               *)
(*                                                                         *)
(* The reference never looks at dependency edges, plans or generated code: *)
(* it carries out the BUILDER CALLS of the current phase one after another *)
(* in the order they were written (a stack of block conditions for         *)
(* if_/else_, loops with per-iteration bounds, element stores, yields,     *)
(* fail / switch / raise), inside the run loop of run(t_end, max_steps):   *)
(*    - the next phase is advanced to the default successor before the     *)
(*      body runs; a phase switch overrides it; a failed step keeps it     *)
(*    - a failed step is reported (StepFailed) and not counted             *)
(*    - only persistent variables (<state>, <p>, <t>, <dt>) survive a step *)
(*                                                                         *)
(* A case is a method, an initial state, a run bound and the event traces  *)
(* recorded from the real back ends for exactly that run.  One Step action *)
(* = one iteration of the run loop; the events it produces must be the     *)
(* next events of every recorded trace.  The first difference is reported  *)
(* with the back end, the position and the event the reference expected.   *)
(***************************************************************************)
EXTENDS Expr, Json, IOUtils

Cases == JsonDeserialize(IOEnv.CASES)

VARIABLES cid, store, phase, nsteps, pos, status, verdict,
          ccount    \* calls of the tagged user function so far, per tag (fault injection, C11)
vars == <<cid, store, phase, nsteps, pos, status, verdict, ccount>>

Method  == Cases[cid].method
PNames  == Method.pnames               \* persistent names of the method, sorted by the harness
Traces  == Cases[cid].traces           \* sequence of [impl, events]
Cap     == Cases[cid].cap              \* at most this many events were taken from each back end
MaxSt   == Cases[cid].bound.max_steps  \* -1: none
TEnd    == Cases[cid].bound.t_end      \* -1: none
Mode    == Cases[cid].mode             \* "events": yields are events; "slots": a yield overwrites the
                                       \* <ret_state>/<ret_time>/<ret_time_id> slots of its component (Fortran)
Fault   == Cases[cid].fault            \* <<tag, occurrence>> of the call of <func>f(.., k=tag) that raises; <<0, 0>>: none

PhaseRec(name) == Method.phases[CHOOSE k \in DOMAIN Method.phases : Method.phases[k].name = name]

IsPersistent(v) == \E k \in DOMAIN PNames : PNames[k] = v
Persist(st) == [v \in {x \in DOMAIN st : IsPersistent(x)} |-> st[v]]
Put(st, v, val) == [x \in DOMAIN st \cup {v} |-> IF x = v THEN val ELSE st[x]]
Del(st, V) == [x \in DOMAIN st \ V |-> st[x]]

PersSnapshot(st) == [k \in DOMAIN PNames |-> <<PNames[k], IF PNames[k] \in DOMAIN st THEN st[PNames[k]] ELSE None>>]

----------------------------------------------------------------------------
\* One assignment (loops already entered): [s |-> store, ok |-> in fragment]
AssignOnce(c, st) ==
    LET v == Eval(c.rhs, st) IN
      IF v = U \/ v[1] = "t" THEN [s |-> st, ok |-> FALSE]
      ELSE IF c.sub = <<>> THEN [s |-> Put(st, c.lhs, v), ok |-> TRUE]
      ELSE LET ix == IF Len(c.sub) = 1 THEN Eval(c.sub[1], st) ELSE U
               a  == IF c.lhs \in DOMAIN st THEN st[c.lhs] ELSE U
           IN IF IsA(a) /\ IsI(ix) /\ IsI(v) /\ ix[2] >= 0 /\ ix[2] < Len(a[2])
              THEN [s |-> Put(st, c.lhs, A([a[2] EXCEPT ![ix[2] + 1] = v[2]])), ok |-> TRUE]
              ELSE [s |-> st, ok |-> FALSE]

RECURSIVE LoopExec(_, _, _), Iter(_, _, _, _, _)
\* loops[d..] around the assignment; bounds are evaluated when the loop is entered
LoopExec(c, d, st) ==
    IF d > Len(c.loops) THEN AssignOnce(c, st)
    ELSE LET lo == Eval(c.loops[d][2], st)  hi == Eval(c.loops[d][3], st) IN
           IF IsI(lo) /\ IsI(hi) /\ hi[2] - lo[2] <= 8 THEN Iter(c, d, lo[2], hi[2], st)
           ELSE [s |-> st, ok |-> FALSE]
Iter(c, d, i, hi, st) ==
    IF i >= hi THEN [s |-> st, ok |-> TRUE]
    ELSE LET r == LoopExec(c, d + 1, Put(st, c.loops[d][1], I(i))) IN
           IF r.ok THEN Iter(c, d, i + 1, hi, r.s) ELSE r

LoopIdents(c) == {c.loops[k][1] : k \in DOMAIN c.loops}

\* Tagged user-function call inside the right-hand side of an assignment (fault injection, C11): the tag of a
\* call <func>f(.., k=constant) that sits at the top of the expression or directly in a top-level sum/product,
\* where it is evaluated exactly once per execution of the assignment; 0 if there is none.
RECURSIVE TagOf(_), TagOfSeq(_, _)
TagOf(e) ==
    CASE e[1] = "call" -> IF e[2] = <<"v", "<func>f">> /\ (\E k \in DOMAIN e[4] : e[4][k][1] = "k" /\ e[4][k][2][1] = "c")
                          THEN e[4][CHOOSE k \in DOMAIN e[4] : e[4][k][1] = "k"][2][2] ELSE 0
      [] e[1] \in {"sum", "prod"} -> TagOfSeq(e[2], 1)
      [] OTHER -> 0
TagOfSeq(s, k) == IF k > Len(s) THEN 0 ELSE IF TagOf(s[k]) # 0 THEN TagOf(s[k]) ELSE TagOfSeq(s, k + 1)
\* how often the assignment is executed (its bounds do not depend on what it assigns)
RECURSIVE TripCount(_, _, _), TripSum(_, _, _, _, _)
TripCount(c, d, st) ==
    IF d > Len(c.loops) THEN 1
    ELSE LET lo == Eval(c.loops[d][2], st)  hi == Eval(c.loops[d][3], st) IN
           IF IsI(lo) /\ IsI(hi) /\ hi[2] - lo[2] <= 8 THEN TripSum(c, d, lo[2], hi[2], st) ELSE 0
TripSum(c, d, i, hi, st) ==
    IF i >= hi THEN 0 ELSE TripCount(c, d + 1, Put(st, c.loops[d][1], I(i))) + TripSum(c, d, i + 1, hi, st)

\* Accumulator of a phase body: st, evs, stack (values of the enclosing block conditions),
\* lastIf (<<>> or <<value>> of the flag of the if_ block closed last), out, target, kind, calls (per-site
\* counters of user-function calls, for fault injection)
Active(acc) == \A j \in DOMAIN acc.stack : acc.stack[j]
Halt(acc, o) == [acc EXCEPT !.out = o]

Structural == {"if", "endif", "else", "endelse", "fresh"}

\* ---- fault analysis (C11) --------------------------------------------------------------
\* After the scripted call has raised (acc.hit), the body is still walked in written order with the
\* values the call would have produced, but only to find out which assignments do NOT depend on the
\* failed call (data flow through acc.taint, control flow through acc.staint): those are the values
\* a persistent variable may hold afterwards (acc.cands), besides its value from before the step.
Tainted(acc, V) == V \cap acc.taint # {}
GuardTainted(acc) == \E j \in DOMAIN acc.staint : acc.staint[j]

\* block structure: executed whether or not the enclosing blocks are active
ExecStructural(c, acc) ==
    CASE c.op = "if" ->
            IF ~Active(acc) THEN [acc EXCEPT !.stack = Append(@, FALSE), !.flags = Append(@, FALSE),
                                             !.staint = Append(@, Tainted(acc, Vars(c.c))),
                                             !.ftaint = Append(@, Tainted(acc, Vars(c.c)))]
            ELSE LET v == Eval(c.c, acc.st) IN
                   IF IsB(v) THEN [acc EXCEPT !.stack = Append(@, v[2]), !.flags = Append(@, v[2]),
                                              !.staint = Append(@, Tainted(acc, Vars(c.c))),
                                              !.ftaint = Append(@, Tainted(acc, Vars(c.c)))]
                   ELSE Halt(acc, "oof")
      [] c.op = "endif" ->
            [acc EXCEPT !.lastIf = <<acc.flags[Len(acc.flags)], acc.ftaint[Len(acc.ftaint)]>>,
                        !.stack = SubSeq(@, 1, Len(@) - 1), !.flags = SubSeq(@, 1, Len(@) - 1),
                        !.staint = SubSeq(@, 1, Len(@) - 1), !.ftaint = SubSeq(@, 1, Len(@) - 1)]
      [] c.op = "else" ->
            IF acc.lastIf = <<>> THEN Halt(acc, "oof")
            ELSE [acc EXCEPT !.stack = Append(@, ~acc.lastIf[1]), !.flags = Append(@, FALSE),
                             !.staint = Append(@, acc.lastIf[2]), !.ftaint = Append(@, FALSE)]
      [] c.op = "endelse" ->
            [acc EXCEPT !.lastIf = <<>>, !.stack = SubSeq(@, 1, Len(@) - 1), !.flags = SubSeq(@, 1, Len(@) - 1),
                        !.staint = SubSeq(@, 1, Len(@) - 1), !.ftaint = SubSeq(@, 1, Len(@) - 1)]
      [] c.op = "fresh" -> acc

AssignReads(c) ==
    Vars(c.rhs) \cup VarsOfSeq(c.sub, 1)
    \cup UNION {Vars(c.loops[k][2]) \cup Vars(c.loops[k][3]) : k \in DOMAIN c.loops}
    \cup (IF c.sub # <<>> \/ c.loops # <<>> THEN {c.lhs} ELSE {})

\* book-keeping of an assignment to `names` (new values already in st2) for the fault analysis
Track(acc, st2, names, reads) ==
    LET t == GuardTainted(acc) \/ Tainted(acc, reads) IN
      [acc EXCEPT !.st = st2,
                  !.taint = IF t THEN @ \cup names ELSE @ \ names,
                  !.cands = IF t \/ acc.closed THEN @
                            ELSE @ \cup {<<n, st2[n]>> : n \in {x \in names : IsPersistent(x)}}]

\* a statement inside active blocks
ExecStatement(c, acc) ==
    CASE c.op = "assign" ->
            LET r == LoopExec(c, 1, acc.st)
                tag == TagOf(c.rhs)
                n0 == IF tag \in DOMAIN acc.cc THEN acc.cc[tag] ELSE 0
                n1 == n0 + TripCount(c, 1, acc.st)
                acc1 == IF tag = 0 THEN acc ELSE [acc EXCEPT !.cc = [x \in DOMAIN @ \cup {tag} |-> IF x = tag THEN n1 ELSE @[x]]]
            IN
              IF ~r.ok THEN Halt(acc, "oof")
              ELSE IF tag # 0 /\ ~acc.hit /\ Fault[1] = tag /\ n0 < Fault[2] /\ Fault[2] <= n1
                   THEN \* one of the calls of this assignment raises (possibly after some iterations): its target is
                        \* uncertain; a persistent array written element by element is outside the fragment
                        IF IsPersistent(c.lhs) THEN Halt(acc, "oof")
                        ELSE [acc1 EXCEPT !.hit = TRUE, !.st = Del(r.s, LoopIdents(c)), !.taint = @ \cup {c.lhs}]
                   ELSE Track(acc1, Del(r.s, LoopIdents(c)), {c.lhs}, AssignReads(c))
      [] c.op = "acall" ->
            LET args == EvalSeq(c.args, acc.st, 1)  kw == EvalKw(c.kw, acc.st, 1)
                tag  == IF c.f = "<func>f" /\ IsI(KwGet(kw, "k", I(0))) THEN KwGet(kw, "k", I(0))[2] ELSE 0
                n    == IF tag \in DOMAIN acc.cc THEN acc.cc[tag] + 1 ELSE 1
                acc1 == IF tag = 0 THEN acc ELSE [acc EXCEPT !.cc = [x \in DOMAIN @ \cup {tag} |-> IF x = tag THEN n ELSE @[x]]]
                names == {c.lhs[k] : k \in DOMAIN c.lhs}
                reads == VarsOfSeq(c.args, 1) \cup VarsOfKw(c.kw, 1)
            IN
              IF (\E k \in DOMAIN args : args[k] = U) \/ (\E k \in DOMAIN kw : kw[k][2] = U) THEN Halt(acc, "oof")
              ELSE LET v == Apply(c.f, args, kw)
                       st2 == IF v = U THEN acc.st
                              ELSE IF Len(c.lhs) = 1 /\ v[1] # "t" THEN Put(acc.st, c.lhs[1], v)
                              ELSE IF v[1] = "t" /\ Len(c.lhs) = Len(v[2])
                                   THEN [x \in DOMAIN acc.st \cup names |->
                                           IF x \in names
                                           THEN v[2][CHOOSE k \in DOMAIN c.lhs : c.lhs[k] = x /\ \A m \in DOMAIN c.lhs : c.lhs[m] = x => m <= k]
                                           ELSE acc.st[x]]
                                   ELSE acc.st
                       okshape == v # U /\ ((Len(c.lhs) = 1 /\ v[1] # "t") \/ (v[1] = "t" /\ Len(c.lhs) = Len(v[2])))
                   IN IF ~okshape THEN Halt(acc, "oof")
                      ELSE IF tag # 0 /\ ~acc.hit /\ <<tag, n>> = Fault
                           THEN \* this call raises: its targets depend on it, nothing is assigned for sure
                                [acc1 EXCEPT !.hit = TRUE, !.st = st2, !.taint = @ \cup names]
                           ELSE Track(acc1, st2, names, reads)
      [] c.op = "yield" ->
            IF acc.hit THEN [acc EXCEPT !.closed = TRUE]       \* fenced behind the failed call: never ran
            ELSE LET v == Eval(c.e, acc.st)  t == Eval(c.time, acc.st) IN
                   IF v = U \/ t = U \/ v[1] = "t" THEN Halt(acc, "oof")
                   ELSE IF acc.mode = "slots"
                   THEN [acc EXCEPT !.st = [n \in DOMAIN @ \cup {c.slots[1], c.slots[2], c.slots[3]} |->
                                              IF n = c.slots[1] THEN v ELSE IF n = c.slots[2] THEN t
                                              ELSE IF n = c.slots[3] THEN <<"s", c.tid>> ELSE @[n]]]
                   ELSE [acc EXCEPT !.evs = Append(@, <<"yield", t, c.tid, c.comp, v>>)]
      [] acc.hit /\ c.op \in {"fail", "raise", "switch", "restart"} -> [acc EXCEPT !.closed = TRUE]
      [] c.op = "fail"    -> Halt(acc, "failed")
      [] c.op = "raise"   -> [Halt(acc, "raise") EXCEPT !.kind = c.kind]
      [] c.op = "switch"  -> [Halt(acc, "switch") EXCEPT !.target = c.to]
      [] c.op = "restart" -> [Halt(acc, "switch") EXCEPT !.target = acc.self]
      [] OTHER -> Halt(acc, "oof")

\* after the failed call a statement whose guard is false still is a barrier if it is a non-assignment
Barrier(c) == c.op \in {"yield", "fail", "raise", "switch", "restart"}

ExecCall(c, acc) ==
    IF c.op \in Structural THEN ExecStructural(c, acc)
    ELSE IF ~Active(acc)
         THEN (IF acc.hit /\ Barrier(c) THEN [acc EXCEPT !.closed = TRUE]
               ELSE IF acc.hit /\ GuardTainted(acc) /\ c.op \in {"assign", "acall"}
                    THEN \* might have run had the call succeeded: its targets are uncertain
                         [acc EXCEPT !.taint = @ \cup (IF c.op = "assign" THEN {c.lhs} ELSE {c.lhs[k] : k \in DOMAIN c.lhs})]
                    ELSE acc)
    ELSE ExecStatement(c, acc)

RECURSIVE Body(_, _, _)
Body(calls, k, acc) ==
    IF k > Len(calls) \/ acc.out # "go" THEN acc
    ELSE Body(calls, k + 1, ExecCall(calls[k], acc))

RunBody(ph, st, cc) ==
    LET r == Body(ph.calls, 1, [st |-> st, evs |-> <<>>, stack |-> <<>>, flags |-> <<>>, lastIf |-> <<>>,
                                out |-> "go", target |-> "", kind |-> "", self |-> ph.name,
                                mode |-> Mode, cc |-> cc, hit |-> FALSE, closed |-> FALSE, taint |-> {}, staint |-> <<>>,
                                ftaint |-> <<>>, cands |-> {}])
    IN IF r.hit /\ r.out # "oof" THEN [r EXCEPT !.out = "userexc"] ELSE r

----------------------------------------------------------------------------
InitStore == [v \in {Cases[cid].input[k][1] : k \in DOMAIN Cases[cid].input} |->
                Cases[cid].input[CHOOSE k \in DOMAIN Cases[cid].input : Cases[cid].input[k][1] = v][2]]

Init ==
    /\ cid \in DOMAIN Cases
    /\ store = [v \in {Cases[cid].input[k][1] : k \in DOMAIN Cases[cid].input} |->
                  Cases[cid].input[CHOOSE k \in DOMAIN Cases[cid].input : Cases[cid].input[k][1] = v][2]]
    /\ phase = Cases[cid].method.initial
    /\ nsteps = 0 /\ pos = 1 /\ status = "run" /\ verdict = <<>> /\ ccount = <<>>

TimeVal == IF "<t>" \in DOMAIN store THEN store["<t>"] ELSE U
StopNow == \/ (TEnd # -1 /\ IsI(TimeVal) /\ TimeVal[2] >= TEnd)
           \/ (MaxSt # -1 /\ nsteps >= MaxSt)

\* events the reference produces in this iteration of the run loop
StepResult ==
    LET ph  == PhaseRec(phase)
        r   == RunBody(ph, store, ccount)
        nxt == IF r.out = "switch" THEN r.target ELSE ph.next
        st2 == Persist(r.st)
        dtv == IF "<dt>" \in DOMAIN r.st THEN r.st["<dt>"] ELSE None
        tv  == IF "<t>" \in DOMAIN r.st THEN r.st["<t>"] ELSE None
        endev == CASE Mode = "slots" /\ r.out \in {"go", "switch", "failed"} -> <<"slots", nxt, PersSnapshot(st2)>>
                   [] r.out \in {"go", "switch"} -> <<"done", dtv, tv, phase, nxt, PersSnapshot(st2)>>
                   [] r.out = "failed" -> <<"fail", tv, ph.next, PersSnapshot(st2)>>
                   [] r.out = "raise"  -> <<"raise", r.kind, PersSnapshot(st2)>>
                   [] OTHER -> <<"oof">>
    IN [evs |-> IF r.out = "userexc" THEN r.evs ELSE Append(r.evs, endev), out |-> r.out, st |-> st2,
        next |-> nxt, cc |-> r.cc, cands |-> r.cands, dflt |-> ph.next]

\* compare expected events with every recorded trace from position pos on (up to Cap)
Ev(m, p) == IF p <= Len(Traces[m].events) THEN Traces[m].events[p] ELSE <<"<no more events>">>
Mismatch(exp) ==
    {<<m, k>> \in (DOMAIN Traces) \X (DOMAIN exp) : pos + k - 1 <= Cap /\ Ev(m, pos + k - 1) # exp[k]}
FirstMismatch(exp) ==
    LET MM == Mismatch(exp) IN CHOOSE x \in MM : \A y \in MM : x[2] <= y[2]

\* C11: what the contract says about the event recorded when the injected exception reached the
\* caller: <<"userexc", same object, temporaries still visible, next phase, persistent values>>
Pre(name) == IF name \in DOMAIN store THEN store[name] ELSE None
FaultClause(e, r) ==
    IF e[1] # "userexc" THEN "ExceptionReachesCaller"
    ELSE IF ~e[2] THEN "SameException"
    ELSE IF e[3] # <<>> THEN "NoTemporaries"
    ELSE IF e[4] # r.dflt THEN "NextPhase"
    ELSE IF \E k \in DOMAIN e[5] : e[5][k][2] # Pre(e[5][k][1]) /\ <<e[5][k][1], e[5][k][2]>> \notin r.cands
         THEN "AllowedValue"
    ELSE "ok"

Step ==
    /\ status = "run" /\ ~StopNow /\ pos <= Cap
    /\ (IF TEnd = -1 THEN TRUE ELSE IsI(TimeVal))
    /\ LET r == StepResult IN
         IF r.out = "oof"
         THEN /\ status' = "dropped" /\ UNCHANGED <<store, phase, nsteps, pos, verdict, ccount>>
         ELSE IF Mismatch(r.evs) # {}
         THEN LET x == FirstMismatch(r.evs) IN
                /\ status' = "bad"
                /\ verdict' = <<Traces[x[1]].impl, pos + x[2] - 1, r.evs[x[2]][1], Ev(x[1], pos + x[2] - 1)[1]>>
                /\ UNCHANGED <<store, phase, nsteps, pos, ccount>>
         ELSE IF r.out = "userexc"
         THEN LET p2 == pos + Len(r.evs)
                  badm == {m \in DOMAIN Traces : FaultClause(Ev(m, p2), r) # "ok" \/ Len(Traces[m].events) # p2}
              IN IF badm = {}
                 THEN /\ status' = "accepted" /\ pos' = p2 + 1
                      /\ UNCHANGED <<store, phase, nsteps, verdict, ccount>>
                 ELSE LET m == CHOOSE x \in badm : TRUE IN
                        /\ status' = "bad"
                        /\ verdict' = <<Traces[m].impl, p2, FaultClause(Ev(m, p2), r), Ev(m, p2)[1]>>
                        /\ UNCHANGED <<store, phase, nsteps, pos, ccount>>
         ELSE /\ store' = r.st
              /\ phase' = r.next
              /\ ccount' = r.cc
              /\ nsteps' = IF r.out \in {"go", "switch"} \/ Mode = "slots" THEN nsteps + 1 ELSE nsteps
              /\ pos' = pos + Len(r.evs)
              /\ status' = IF r.out = "raise" THEN "ended" ELSE "run"
              /\ verdict' = verdict
    /\ UNCHANGED cid

\* the run loop returns: the recorded traces must be exhausted as well
Finish ==
    /\ status \in {"run", "ended"}
    /\ (IF status = "ended" \/ StopNow \/ pos > Cap THEN TRUE ELSE FALSE)
    /\ LET extra == {m \in DOMAIN Traces : pos <= Cap /\ Len(Traces[m].events) >= pos} IN
         IF extra = {} THEN status' = "accepted" /\ verdict' = verdict
         ELSE /\ status' = "bad"
              /\ verdict' = <<Traces[CHOOSE m \in extra : TRUE].impl, pos, "<run ends>", Ev(CHOOSE m \in extra : TRUE, pos)[1]>>
    /\ UNCHANGED <<cid, store, phase, nsteps, pos, ccount>>

Next == Step \/ Finish

Spec == Init /\ [][Next]_vars

----------------------------------------------------------------------------
\* properties of the reference itself (checked on every state)
InputNames == {Cases[cid].input[k][1] : k \in DOMAIN Cases[cid].input}
OnlyPersistentSurvives == (pos = 1) \/ (\A v \in DOMAIN store : IsPersistent(v) \/ v \in InputNames)
PhaseExists == \E k \in DOMAIN Method.phases : Method.phases[k].name = phase
StepsCounted == MaxSt = -1 \/ nsteps <= MaxSt

Verdict  == status # "bad" \/ PrintT(<<"BAD", cid, verdict[1], verdict[2], verdict[3], verdict[4]>>)
Outcome  == status \notin {"accepted", "dropped"} \/ PrintT(<<"END", cid, status, nsteps, pos - 1>>)
VerdictStrict == status # "bad"
=============================================================================
