------------------------------ MODULE GuardEval ------------------------------
(***************************************************************************)
(* C04, the interpreter's side of a visit.  The controller contract        *)
(* (ControllerBase.tla) takes the truth of a guard as given; this module   *)
(* checks what the REAL NumpyInterpreter does with a hand-written guard at *)
(* the moment of the visit.  A case is one step of the real interpreter on *)
(* a hand-written phase (a chain of guarded assignments whose guards read  *)
(* variables that other statements of the chain change); for every visit   *)
(* the harness records the store just before, the truth value the real     *)
(* evaluate_condition returned, and the store just after.                  *)
(*   GuardAtVisit       the guard is evaluated in the store of the visit   *)
(*   NoEffectWhenFalse  a statement whose guard is false changes nothing   *)
(*   EffectWhenTrue     otherwise it assigns its right-hand side           *)
(*   ChainOrder         the visits are the statements in chain order       *)
(***************************************************************************)
EXTENDS Expr, Json, IOUtils, TLC

Cases == JsonDeserialize(IOEnv.CASES)

VARIABLES cid
vars == <<cid>>
Init == cid \in DOMAIN Cases
Next == UNCHANGED cid

V == Cases[cid].visits      \* [k, guard, lhs, rhs, before, g, after]; stores are sequences of <<name, value>>
Store(s) == [n \in {s[k][1] : k \in DOMAIN s} |-> s[CHOOSE k \in DOMAIN s : s[k][1] = n][2]]
Put(st, v, x) == [n \in DOMAIN st \cup {v} |-> IF n = v THEN x ELSE st[n]]

GuardAtVisitStrict == \A i \in DOMAIN V : Eval(V[i].guard, Store(V[i].before)) = <<"b", V[i].g>>
NoEffectWhenFalseStrict == \A i \in DOMAIN V : ~V[i].g => Store(V[i].after) = Store(V[i].before)
EffectWhenTrueStrict ==
    \A i \in DOMAIN V : V[i].g => Store(V[i].after) = Put(Store(V[i].before), V[i].lhs, Eval(V[i].rhs, Store(V[i].before)))
ChainOrderStrict == Len(V) = Cases[cid].n /\ \A i \in DOMAIN V : V[i].k = i

Rep(name, ok) == ok \/ PrintT(<<"BAD", cid, name>>)
GuardAtVisit      == Rep("GuardAtVisit", GuardAtVisitStrict)
NoEffectWhenFalse == Rep("NoEffectWhenFalse", NoEffectWhenFalseStrict)
EffectWhenTrue    == Rep("EffectWhenTrue", EffectWhenTrueStrict)
ChainOrder        == Rep("ChainOrder", ChainOrderStrict)
Judged            == PrintT(<<"RAN", cid>>)
=============================================================================
