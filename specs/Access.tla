------------------------------- MODULE Access -------------------------------
(***************************************************************************)
(* Contract for C08.  For a statement of each kind the specification       *)
(* defines statically which variables an execution may read and write      *)
(* (StaticReads / StaticWrites over the exported expression trees).  Each  *)
(* case carries a statement built by the real CodeBuilder, the sets the    *)
(* real get_read_variables / get_written_variables declare (before and     *)
(* after map_expressions with the identity), and the accesses observed on  *)
(* an instrumented variable store while the real interpreter executed the  *)
(* statement in several stores.                                            *)
(*   DeclCovers        static reads (loop counters aside) are declared     *)
(*                     read or written; static writes are declared written *)
(*   ObservedCovered   the same for every access actually observed         *)
(*   IdentityStable    mapping with the identity leaves both sets alone    *)
(*   ObservedWithinStatic (drift only) the interpreter touches nothing the *)
(*                     static definition does not mention                  *)
(***************************************************************************)
EXTENDS Expr, Json, IOUtils

Cases == JsonDeserialize(IOEnv.CASES)

VARIABLES cid
vars == <<cid>>
Init == cid \in DOMAIN Cases
Next == UNCHANGED cid

SeqSet(s) == {s[k] : k \in DOMAIN s}
S == Cases[cid].stmt

LoopVars == {S.loops[k][1] : k \in DOMAIN S.loops}
LoopBoundVars == UNION {Vars(S.loops[k][2]) \cup Vars(S.loops[k][3]) : k \in DOMAIN S.loops}

StaticReads ==
    Vars(S.guard) \cup
    (CASE S.kind = "Assign" ->
              Vars(S.rhs) \cup VarsOfSeq(S.sub, 1) \cup LoopBoundVars
       [] S.kind = "AssignFunctionCall" -> VarsOfSeq(S.args, 1) \cup VarsOfKw(S.kw, 1)
       \* implicit solve: the equations (S.args) are read except for the unknowns (S.sub); the other parameters
       \* (S.kw, e.g. the initial guess) are ordinary reads even when they mention a name of an unknown
       [] S.kind = "AssignImplicit" -> (VarsOfSeq(S.args, 1) \ VarsOfSeq(S.sub, 1)) \cup VarsOfKw(S.kw, 1)
       [] S.kind = "YieldState" -> Vars(S.rhs) \cup Vars(S.time)
       [] OTHER -> {})

StaticWrites ==
    CASE S.kind = "Assign" -> {S.lhs[1]}
      [] S.kind \in {"AssignFunctionCall", "AssignImplicit"} -> SeqSet(S.lhs)
      [] OTHER -> {}

DR == SeqSet(Cases[cid].dreads)
DW == SeqSet(Cases[cid].dwrites)

DeclCoversStrict ==
    /\ (StaticReads \ LoopVars) \subseteq (DR \cup DW)
    /\ StaticWrites \subseteq DW

ObservedCoveredStrict ==
    \A k \in DOMAIN Cases[cid].obs :
        /\ (SeqSet(Cases[cid].obs[k].reads) \ LoopVars) \subseteq (DR \cup DW)
        /\ (SeqSet(Cases[cid].obs[k].writes) \ LoopVars) \subseteq DW

IdentityStableStrict ==
    /\ SeqSet(Cases[cid].ireads) = DR
    /\ SeqSet(Cases[cid].iwrites) = DW

ObservedWithinStatic ==
    \A k \in DOMAIN Cases[cid].obs :
        /\ SeqSet(Cases[cid].obs[k].reads) \subseteq (StaticReads \cup StaticWrites \cup LoopVars)
        /\ SeqSet(Cases[cid].obs[k].writes) \subseteq (StaticWrites \cup LoopVars)

Missing == ((StaticReads \ LoopVars) \ (DR \cup DW)) \cup (StaticWrites \ DW)
DeclCovers      == DeclCoversStrict \/ PrintT(<<"BAD", cid, "DeclCovers", Missing>>)
ObservedCovered == ObservedCoveredStrict \/ PrintT(<<"BAD", cid, "ObservedCovered", {}>>)
IdentityStable  == IdentityStableStrict \/ PrintT(<<"BAD", cid, "IdentityStable", {}>>)
Drift           == ObservedWithinStatic \/ PrintT(<<"DRIFT", cid>>)
=============================================================================
