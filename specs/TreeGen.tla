------------------------------ MODULE TreeGen ------------------------------
(***************************************************************************)
(* Generator of structured programs for C06.  A tree is grown in preorder: *)
(* each step emits one node token and the stack remembers how many         *)
(* children are still owed.  Every behaviour that empties the stack is a   *)
(* tree; TLC enumerates all of them up to MaxTokens (exhaustive) or        *)
(* samples deeper ones (-simulate).  Leaves are numbered in creation order *)
(* so that the executed order is observable.                               *)
(* Tokens: <<"L">>, <<"N">>, <<"I", c>>, <<"E", c>>, <<"B", k>>            *)
(* c indexes the condition catalogue  c, d, ~c, ~~c, TRUE, FALSE           *)
(***************************************************************************)
EXTENDS Naturals, Sequences, TLC, Json

CONSTANTS MaxTokens, MaxKids, NConds, MaxDepth

VARIABLES toks,    \* preorder token sequence
          owed     \* stack: children still to be produced for each open node (innermost last)

vars == <<toks, owed>>

Init == toks = <<>> /\ owed = <<1>>

RECURSIVE Settle(_)
\* after a node is complete, parents whose children are all there are complete too
Settle(st) == IF st # <<>> /\ st[Len(st)] = 0 THEN Settle(SubSeq(st, 1, Len(st) - 1)) ELSE st

Consume(st) == [st EXCEPT ![Len(st)] = @ - 1]

Sum(st) == IF st = <<>> THEN 0 ELSE LET RECURSIVE S(_)
                                       S(k) == IF k = 0 THEN 0 ELSE st[k] + S(k - 1)
                                   IN S(Len(st))

Emit(tok, kids) ==
    /\ owed # <<>>
    /\ Len(toks) + Sum(owed) + kids <= MaxTokens          \* the tree can still be completed
    /\ kids > 0 => Len(owed) < MaxDepth
    /\ toks' = Append(toks, tok)
    /\ owed' = Settle(IF kids = 0 THEN Consume(owed) ELSE Append(Consume(owed), kids))

Next ==
    \/ Emit(<<"L">>, 0)
    \/ Emit(<<"N">>, 0)
    \/ \E c \in 1..NConds : Emit(<<"I", c>>, 1)
    \/ \E c \in 1..NConds : Emit(<<"E", c>>, 2)
    \/ \E k \in 0..MaxKids : IF k = 0 THEN Emit(<<"B", 0>>, 0) ELSE Emit(<<"B", k>>, k)

Spec == Init /\ [][Next]_vars

Dump == (owed # <<>>) \/ PrintT("GEN " \o ToJson(toks))
=============================================================================
