CONSTANTS
  MaxN = 5
  MaxReq = 2
  MaxSteps = 2
  MoveRequested = TRUE
INIT Init
NEXT Next
CHECK_DEADLOCK FALSE
INVARIANT ContractHolds
INVARIANT PlanConsistent
INVARIANT PlanDisjointFromExecuted
INVARIANT Progress
