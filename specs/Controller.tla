----------------------------- MODULE Controller -----------------------------
(***************************************************************************)
(* As-coded model of dagrt.language.ExecutionController (language.py       *)
(* 886-961) checked against the contract of ControllerBase.                *)
(*                                                                         *)
(*   reset            del plan[:], clear plan_id_set and executed_ids      *)
(*   update_plan(E)   depth-first insertion: for each requested id, skip   *)
(*                    it if executed / planned / already in early_plan,    *)
(*                    otherwise first insert its dependencies, then append *)
(*                    it; early_plan goes IN FRONT of the existing plan    *)
(*   __call__         pop plan[0], mark executed, evaluate the guard, run, *)
(*                    splice requested work in front                       *)
(*                                                                         *)
(* execute_ids and depends_on are unordered containers: the model iterates *)
(* them in EVERY order (UpdatePlans is the set of all early plans the      *)
(* Python code can produce), which no run of the real process can cover.   *)
(* The graph, the guard valuation, the request script and the cut point    *)
(* are chosen nondeterministically, so TLC covers all of them up to MaxN.  *)
(***************************************************************************)
EXTENDS ControllerBase

CONSTANTS MaxN,      \* statements per phase
          MaxReq,    \* requests per step
          MaxSteps,  \* steps per behaviour (stale plan across steps)
          MoveRequested  \* TRUE: update_plan moves an already planned requested statement to the
                         \* front (the documented behaviour); FALSE: leaves it where it is

VARIABLES plan, planned,   \* ExecutionController.plan / plan_id_set
          phase,           \* "idle" (between steps) | "plan" | "run"
          nreq, nsteps,
          ok               \* every visit so far was allowed by the contract

vars == <<absvars, plan, planned, phase, nreq, nsteps, ok>>

Range(s) == {s[k] : k \in DOMAIN s}
Without(s, X) == SelectSeq(s, LAMBDA x : x \notin X)

\* all acyclic dependency maps in which statements only depend on lower-numbered ones
\* (every DAG is isomorphic to one of these)
Graphs(n) == {d \in [1..n -> SUBSET (1..n)] : \A i \in 1..n : d[i] \subseteq 1..(i-1)}

Sinks == {s \in Stmts : \A t \in Stmts : s \notin deps[t]}

RECURSIVE AddWithDeps(_, _, _, _), AddAll(_, _, _, _)
\* add_with_deps(stmt) started with early_plan = ep, executed_ids = ex, plan_id_set = pl:
\* the set of early plans it can end with
AddWithDeps(s, ep, ex, pl) ==
    IF s \in ex \/ (~MoveRequested /\ s \in pl) \/ s \in Range(ep)
    THEN {ep}
    ELSE {Append(ep2, s) : ep2 \in AddAll(deps[s], ep, ex, pl)}
\* for x in S: add_with_deps(x)   -- S iterated in any order
AddAll(S, ep, ex, pl) ==
    IF S = {} THEN {ep}
    ELSE UNION {UNION {AddAll(S \ {x}, ep2, ex, pl) : ep2 \in AddWithDeps(x, ep, ex, pl)} : x \in S}

UpdatePlans(E, ex, pl) == AddAll(E, <<>>, ex, pl)

Init ==
    /\ nst \in 1..MaxN
    /\ deps \in Graphs(nst)
    /\ executed = {} /\ pending = <<>> /\ cut = FALSE /\ log = <<>>
    /\ plan = <<>> /\ planned = {}
    /\ phase = "idle" /\ nreq = 0 /\ nsteps = 0 /\ ok = TRUE

\* run_single_step, first half: exec_controller.reset()  (whatever an abandoned step left behind)
BeginStep ==
    /\ phase = "idle" /\ nsteps < MaxSteps
    /\ AbsReset
    /\ plan' = <<>> /\ planned' = {}
    /\ phase' = "plan"
    /\ nreq' = 0 /\ nsteps' = nsteps + 1
    /\ UNCHANGED <<nst, deps, ok>>

\* run_single_step, second half: update_plan(cur_state, cur_state.depends_on)
PlanRoots ==
    /\ phase = "plan"
    /\ \E ep \in UpdatePlans(Sinks, executed, planned) :
          /\ plan' = ep \o Without(plan, Range(ep))
          /\ planned' = planned \cup Range(ep)
    /\ phase' = "run"
    /\ UNCHANGED <<absvars, nreq, nsteps, ok>>

\* one iteration of the while loop in __call__: g = the guard held, c = exec_* raised
\* (FailStep, SwitchPhase, Raise), R = statements requested by exec_*
Pop(g, R, c) ==
    /\ phase = "run" /\ plan # <<>>
    /\ LET s  == Head(plan)
           ex == executed \cup {s}
           pl == planned \ {s}
       IN
         /\ ok' = (ok /\ VisitAllowed(s))
         /\ AbsVisit(s, IF g /\ ~c THEN R ELSE {})
         /\ cut' = (g /\ c)
         /\ IF g /\ c
            THEN \* the generator is abandoned; plan and sets stay as they are until reset()
                 /\ plan' = Tail(plan) /\ planned' = pl
                 /\ phase' = "idle" /\ nreq' = nreq
            ELSE IF g /\ R # {}
            THEN /\ nreq' = nreq + 1 /\ phase' = "run"
                 /\ \E ep \in UpdatePlans(R, ex, pl) :
                       /\ plan' = ep \o Without(Tail(plan), Range(ep))
                       /\ planned' = pl \cup Range(ep)
            ELSE /\ plan' = Tail(plan) /\ planned' = pl
                 /\ phase' = "run" /\ nreq' = nreq
    /\ UNCHANGED <<nst, deps, nsteps>>

EndStep ==
    /\ phase = "run" /\ plan = <<>>
    /\ ok' = (ok /\ EndAllowed)
    /\ phase' = "idle"
    /\ UNCHANGED <<absvars, plan, planned, nreq, nsteps>>

Next ==
    \/ BeginStep
    \/ PlanRoots
    \/ \E g \in BOOLEAN, c \in BOOLEAN :
         \E R \in (IF nreq < MaxReq THEN SUBSET Stmts ELSE {{}}) : Pop(g, R, c)
    \/ EndStep

Spec == Init /\ [][Next]_vars

ContractHolds == ok
PlanConsistent == planned = Range(plan) /\ Cardinality(planned) = Len(plan)
PlanDisjointFromExecuted == phase = "run" => Range(plan) \cap executed = {}
\* the step always terminates: every visit shrinks the unvisited set
Progress == Cardinality(executed) = Len(log)

(***************************************************************************)
(* Liveness (ControllerLive.cfg, no state constraint: the constants bound  *)
(* the graph, so the fairness check is sound).  A step that was started    *)
(* ends -- by emptying the plan or by a cut -- whatever the guards, the    *)
(* requests and the iteration orders are; requests are the only way the    *)
(* plan grows, and they can only name unexecuted work.  StepVariant is the *)
(* termination measure of the while loop in __call__: every Pop strictly   *)
(* decreases the number of unvisited statements.                           *)
(***************************************************************************)
LiveSpec == Init /\ [][Next]_vars /\ WF_vars(Next)
StepEnds == (phase = "plan") ~> (phase = "idle")
AllStepsTaken == <>(nsteps = MaxSteps /\ phase = "idle")
StepVariant == [][phase = "run" /\ phase' = "run"
                    => Cardinality(Stmts \ executed') < Cardinality(Stmts \ executed)]_vars
=============================================================================
