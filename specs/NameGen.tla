------------------------------ MODULE NameGen ------------------------------
(***************************************************************************)
(* Generator of lookup histories for C13.  A behaviour is a sequence of    *)
(* lookups <<ns, key>> against one name manager; key is an index into the  *)
(* adversarial key pool or <<"echo", j>>: "use, as the key, the identifier *)
(* that lookup j returned" (resolved by the harness at replay time -- this *)
(* is how names that look like generated names arise without the           *)
(* specification predicting them).                                         *)
(***************************************************************************)
EXTENDS Naturals, Sequences, FiniteSets, TLC, Json

CONSTANTS NPool,      \* size of the key pool
          NNs,        \* number of namespaces of the target
          MaxLen,     \* lookups per history
          MaxKeys     \* distinct pool keys per history

VARIABLES hist
Init == hist = <<>>

PoolKeys(h) == {h[k][2][2] : k \in {j \in DOMAIN h : h[j][2][1] = "k"}}

Lookup(ns, key) ==
    /\ Len(hist) < MaxLen
    /\ hist' = Append(hist, <<ns, key>>)

Next ==
    \E ns \in 1..NNs :
        \/ \E k \in 1..NPool :
              /\ (k \in PoolKeys(hist) \/ Cardinality(PoolKeys(hist)) < MaxKeys)
              \* symmetry: new pool keys are introduced in increasing order only if both orders
              \* would otherwise be generated -- lookup order matters, so no reduction here
              /\ Lookup(ns, <<"k", k>>)
        \/ \E j \in DOMAIN hist : Lookup(ns, <<"echo", j>>)
        \* the generator starts the next phase function: local identifiers are forgotten (at most once per
        \* history, never first; targets without such a boundary ignore the event)
        \/ /\ ns = 1 /\ hist # <<>> /\ \A j \in DOMAIN hist : hist[j][2][1] # "clear"
           /\ Lookup(ns, <<"clear", 0>>)

Spec == Init /\ [][Next]_hist
Dump == hist = <<>> \/ PrintT("GEN " \o ToJson(hist))
=============================================================================
