------------------------------ MODULE ProgGen ------------------------------
(***************************************************************************)
(* Generator of builder programs: a behaviour is a sequence of CodeBuilder *)
(* calls.  The alphabet (call templates with their expressions) is a       *)
(* profile written by the harness; this module owns the protocol of the    *)
(* builder API -- which calls are legal after which:                       *)
(*   - if_ opens a block, leaving it records "an if block was just closed" *)
(*   - else_ is accepted exactly when such a record exists (it survives    *)
(*     intervening statements and is cleared only by leaving an else_),    *)
(*   - blocks are closed innermost first.                                  *)
(* TLC enumerates all behaviours up to Depth (exhaustive) or samples them  *)
(* (-simulate); every balanced prefix is printed as one JSON line and is   *)
(* replayed into the real CodeBuilder by harness/progs.py.                 *)
(***************************************************************************)
EXTENDS Naturals, Sequences, TLC, Json, IOUtils

Profile  == JsonDeserialize(IOEnv.PROFILE)
Alphabet == Profile.alphabet          \* sequence of records with field "op"
Depth    == Profile.depth
MaxNest  == Profile.maxnest
MinLen   == Profile.minlen

Typed    == Profile.typed             \* TRUE: a call is generated only when the temporaries it reads
                                      \* have been assigned on every path leading to it

VARIABLES calls,   \* sequence of indices into Alphabet
          stack,   \* open blocks, innermost last: "if" or "else"
          lastIf,  \* an if_ block has been closed and not yet consumed by leaving an else_
          defd     \* stack of sets of names certainly assigned: one entry per open block + the phase level

vars == <<calls, stack, lastIf, defd>>

Init == calls = <<>> /\ stack = <<>> /\ lastIf = FALSE /\ defd = <<{}>>

SeqSet(s) == {s[k] : k \in DOMAIN s}
Top == defd[Len(defd)]
Ready(k) == ~Typed \/ SeqSet(Alphabet[k].needs) \subseteq Top

Idx(op) == {k \in DOMAIN Alphabet : Alphabet[k].op = op}
Structural == {"if", "else", "endif", "endelse"}

Plain(k) ==
    /\ Alphabet[k].op \notin Structural
    /\ (IF Typed THEN SeqSet(Alphabet[k].needs) \subseteq Top ELSE TRUE)
    /\ calls' = Append(calls, k)
    /\ defd' = [defd EXCEPT ![Len(defd)] = @ \cup SeqSet(Alphabet[k].defs)]
    /\ UNCHANGED <<stack, lastIf>>

OpenIf(k) ==
    /\ Alphabet[k].op = "if"
    /\ Len(stack) < MaxNest
    /\ Len(calls) + Len(stack) + 2 <= Depth   \* room for the matching close
    /\ (IF Typed THEN SeqSet(Alphabet[k].needs) \subseteq Top ELSE TRUE)
    /\ calls' = Append(calls, k)
    /\ stack' = Append(stack, "if")
    /\ defd' = Append(defd, Top)                 \* what is assigned inside is certain only inside
    /\ UNCHANGED lastIf

OpenElse(k) ==
    /\ Alphabet[k].op = "else"
    /\ lastIf
    /\ Len(stack) < MaxNest
    /\ Len(calls) + Len(stack) + 2 <= Depth
    /\ calls' = Append(calls, k)
    /\ stack' = Append(stack, "else")
    /\ defd' = Append(defd, Top)
    /\ UNCHANGED lastIf

Close(k) ==
    /\ stack # <<>>
    /\ LET top == stack[Len(stack)] IN
         /\ Alphabet[k].op = (IF top = "if" THEN "endif" ELSE "endelse")
         /\ lastIf' = (top = "if")
    /\ calls' = Append(calls, k)
    /\ stack' = SubSeq(stack, 1, Len(stack) - 1)
    /\ defd' = SubSeq(defd, 1, Len(defd) - 1)

\* blocks still open must be closable within the depth bound
Room == Len(calls) + Len(stack) < Depth

Next ==
    \E k \in DOMAIN Alphabet :
        \/ Room /\ Plain(k)
        \/ OpenIf(k)
        \/ OpenElse(k)
        \/ Close(k)

Spec == Init /\ [][Next]_vars

Bound == Len(calls) <= Depth

Dump == (stack # <<>>) \/ (Len(calls) < MinLen) \/ PrintT("GEN " \o ToJson(calls))

\* protocol invariants of the generator itself
Balanced == Len(stack) <= MaxNest /\ Len(calls) + Len(stack) <= Depth
=============================================================================
