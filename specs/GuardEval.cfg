INIT Init
NEXT Next
CHECK_DEADLOCK FALSE
INVARIANT GuardAtVisit
INVARIANT NoEffectWhenFalse
INVARIANT EffectWhenTrue
INVARIANT ChainOrder
INVARIANT Judged
