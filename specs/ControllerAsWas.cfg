CONSTANTS
  MaxN = 4
  MaxReq = 2
  MaxSteps = 2
  MoveRequested = FALSE
INIT Init
NEXT Next
CHECK_DEADLOCK FALSE
INVARIANT ContractHolds
INVARIANT PlanConsistent
INVARIANT PlanDisjointFromExecuted
INVARIANT Progress
