INIT Init
NEXT Next
CHECK_DEADLOCK FALSE
INVARIANT TokensPreservedStrict
INVARIANT NoStringSplitStrict
INVARIANT FitsWidthStrict
INVARIANT ContinuationStrict
INVARIANT SameSyntaxTreeStrict
