INIT Init
NEXT Next
CHECK_DEADLOCK FALSE
INVARIANT ParseOKStrict
INVARIANT SamePrintStrict
INVARIANT SameVarsStrict
INVARIANT SameValueStrict
INVARIANT AssignedOnceStrict
INVARIANT NoFreeHoistedStrict
INVARIANT HoistValueStrict
INVARIANT HoistNoErrorStrict
INVARIANT MatchDocumentedStrict
INVARIANT OnlyFreeStrict
INVARIANT AgreesWithPreStrict
INVARIANT GenuineMatchStrict
