-------------------------------- MODULE Wrap --------------------------------
(***************************************************************************)
(* Contract for C20, at character level.  A case is a code line, an        *)
(* indentation level, a width and a target, together with the lines the    *)
(* REAL wrap_line returned (and, for Python, whether ast.parse of the      *)
(* wrapped lines equals ast.parse of the input).                           *)
(*   TokensPreserved  removing the continuation markers and joining the    *)
(*                    lines gives the same token sequence as the input     *)
(*                    (token = quoted stretch, wherever the quote opens,   *)
(*                    run of word characters, or single other character)   *)
(*   NoStringSplit    no output line ends inside a quoted stretch          *)
(*   FitsWidth        a line holding more than one token fits the width    *)
(*   Continuation     every line but the last ends with the target's       *)
(*                    marker, the last does not get one added, no line is  *)
(*                    empty                                                *)
(*   SameSyntaxTree   (Python) the wrapped statement parses to the same    *)
(*                    tree as the unwrapped one                            *)
(* The contract does not prescribe where lines are broken.                 *)
(***************************************************************************)
EXTENDS Naturals, Sequences, TLC, Json, IOUtils

Cases == JsonDeserialize(IOEnv.CASES)

VARIABLES cid
vars == <<cid>>
Init == cid \in DOMAIN Cases
Next == UNCHANGED cid

Quotes == {"\"", "'"}

\* scanner state after reading s[1..i]: [cur, q, toks]
RECURSIVE Scan(_, _, _, _, _)
Scan(s, i, cur, q, toks) ==
    IF i > Len(s)
    THEN [toks |-> IF cur = <<>> THEN toks ELSE Append(toks, cur), q |-> q]
    ELSE LET ch == s[i] IN
         IF q # ""
         THEN Scan(s, i + 1, Append(cur, ch), IF ch = q THEN "" ELSE q, toks)
         ELSE IF ch \in Quotes THEN Scan(s, i + 1, Append(cur, ch), ch, toks)
         ELSE IF ch = " " THEN Scan(s, i + 1, <<>>, "", IF cur = <<>> THEN toks ELSE Append(toks, cur))
         ELSE Scan(s, i + 1, Append(cur, ch), "", toks)

Words(s)      == Scan(s, 1, <<>>, "", <<>>).toks     \* the units a blank-only wrapper cannot break

\* Lexemes: a quoted stretch, a run of word characters, or a single other character.  Inserting a
\* blank between two lexemes (e.g. between a closing quote and a bracket) is a change of layout only.
WordChars == {"a","b","c","d","e","f","g","h","i","j","k","l","m","n","o","p","q","r","s","t","u","v","w","x","y","z",
              "A","B","C","D","E","F","G","H","I","J","K","L","M","N","O","P","Q","R","S","T","U","V","W","X","Y","Z",
              "0","1","2","3","4","5","6","7","8","9","_","."}
Emit(toks, cur) == IF cur = <<>> THEN toks ELSE Append(toks, cur)
RECURSIVE Lex(_, _, _, _, _)
Lex(s, i, cur, q, toks) ==
    IF i > Len(s) THEN Emit(toks, cur)
    ELSE LET ch == s[i] IN
         IF q # ""
         THEN IF ch = q THEN Lex(s, i + 1, <<>>, "", Append(toks, Append(cur, ch)))
              ELSE Lex(s, i + 1, Append(cur, ch), q, toks)
         ELSE IF ch \in Quotes THEN Lex(s, i + 1, <<ch>>, ch, Emit(toks, cur))
         ELSE IF ch = " " THEN Lex(s, i + 1, <<>>, "", Emit(toks, cur))
         ELSE IF ch \in WordChars THEN Lex(s, i + 1, Append(cur, ch), "", toks)
         ELSE Lex(s, i + 1, <<>>, "", Append(Emit(toks, cur), <<ch>>))
Tokens(s)     == Lex(s, 1, <<>>, "", <<>>)
OpenQuote(s)  == Scan(s, 1, <<>>, "", <<>>).q        \* "" when s ends outside quotes

Marker(c) == IF Cases[c].target = "python" THEN "\\" ELSE "&"

RECURSIVE RStrip(_)
RStrip(s) == IF s # <<>> /\ s[Len(s)] = " " THEN RStrip(SubSeq(s, 1, Len(s) - 1)) ELSE s

\* a non-final line without its continuation marker and padding
Unmarked(c, ln) == IF ln # <<>> /\ ln[Len(ln)] = Marker(c)
                   THEN RStrip(SubSeq(ln, 1, Len(ln) - 1)) ELSE ln

Out(c) == Cases[c].out
RECURSIVE Join(_, _, _)
Join(c, k, acc) ==
    IF k > Len(Out(c)) THEN acc
    ELSE LET part == IF k < Len(Out(c)) THEN Unmarked(c, Out(c)[k]) ELSE Out(c)[k]
         IN Join(c, k + 1, IF k = 1 THEN part ELSE acc \o <<" ">> \o part)
Dejoined(c) == Join(c, 1, <<>>)

IndentLen(c) == Cases[c].level * Cases[c].indent

TokensPreservedStrict == Tokens(Dejoined(cid)) = Tokens(Cases[cid].line)

NoStringSplitStrict ==
    \A k \in DOMAIN Out(cid) :
        OpenQuote(IF k < Len(Out(cid)) THEN Unmarked(cid, Out(cid)[k]) ELSE Out(cid)[k]) = ""

FitsWidthStrict ==
    \A k \in DOMAIN Out(cid) :
        LET body == IF k < Len(Out(cid)) THEN Unmarked(cid, Out(cid)[k]) ELSE Out(cid)[k] IN
          Len(Words(body)) > 1 => IndentLen(cid) + Len(Out(cid)[k]) <= Cases[cid].width

ContinuationStrict ==
    /\ Out(cid) # <<>>
    /\ \A k \in DOMAIN Out(cid) :
         /\ Words(Out(cid)[k]) # <<>>
         /\ k < Len(Out(cid)) => Out(cid)[k][Len(Out(cid)[k])] = Marker(cid)

SameSyntaxTreeStrict == Cases[cid].ast \in {"same", "n/a"}

TokensPreserved == TokensPreservedStrict \/ PrintT(<<"BAD", cid, "TokensPreserved">>)
NoStringSplit   == NoStringSplitStrict \/ PrintT(<<"BAD", cid, "NoStringSplit">>)
FitsWidth       == FitsWidthStrict \/ PrintT(<<"BAD", cid, "FitsWidth">>)
Continuation    == ContinuationStrict \/ PrintT(<<"BAD", cid, "Continuation">>)
SameSyntaxTree  == SameSyntaxTreeStrict \/ PrintT(<<"BAD", cid, "SameSyntaxTree">>)
=============================================================================
