-------------------------------- MODULE Tree --------------------------------
(***************************************************************************)
(* Structured programs as the code generators see them (dag_ast.py) and    *)
(* their reference execution.  Trees are tagged tuples, exactly the JSON   *)
(* the harness exports from the real AST objects:                          *)
(*    <<"L", id>>                 leaf statement                           *)
(*    <<"N">>                     NullASTNode                              *)
(*    <<"B", <<t1, ..., tn>>>>    Block                                    *)
(*    <<"I", cond, then>>         IfThen                                   *)
(*    <<"E", cond, then, else>>   IfThenElse                               *)
(*    <<"F", ident, lo, hi, body>> ForLoop (bounds are opaque expressions) *)
(* Conditions: <<"v", flag>>, <<"not", c>>, <<"and", <<c...>>>>,            *)
(* <<"or", <<c...>>>>, <<"cb", TRUE|FALSE>>.                                *)
(***************************************************************************)
EXTENDS Naturals, Sequences

RECURSIVE CondHolds(_, _)
CondHolds(c, val) ==
    CASE c[1] = "v"   -> val[c[2]]
      [] c[1] = "cb"  -> c[2]
      [] c[1] = "not" -> ~CondHolds(c[2], val)
      [] c[1] = "and" -> \A k \in DOMAIN c[2] : CondHolds(c[2][k], val)
      [] c[1] = "or"  -> \E k \in DOMAIN c[2] : CondHolds(c[2][k], val)

RECURSIVE CondFlags(_)
CondFlags(c) ==
    CASE c[1] = "v"   -> {c[2]}
      [] c[1] = "cb"  -> {}
      [] c[1] = "not" -> CondFlags(c[2])
      [] c[1] \in {"and", "or"} -> UNION {CondFlags(c[2][k]) : k \in DOMAIN c[2]}

RECURSIVE Flags(_), FlagsOfSeq(_, _)
Flags(t) ==
    CASE t[1] = "L" -> {}
      [] t[1] = "N" -> {}
      [] t[1] = "B" -> FlagsOfSeq(t[2], 1)
      [] t[1] = "I" -> CondFlags(t[2]) \cup Flags(t[3])
      [] t[1] = "E" -> CondFlags(t[2]) \cup Flags(t[3]) \cup Flags(t[4])
      [] t[1] = "F" -> Flags(t[5])
FlagsOfSeq(s, k) == IF k > Len(s) THEN {} ELSE Flags(s[k]) \cup FlagsOfSeq(s, k + 1)

\* Run(t, val, loops): the leaf executions of one pass through t, in order.  A leaf execution
\* is <<id, loops>> where loops is the sequence of enclosing loops <<ident, lo, hi, iteration>>,
\* outermost first.  Bounds are opaque, so every loop is run for two iterations (1 and 2): enough to
\* tell "all iterations of A, then all iterations of B" from any interleaving of the two.
RECURSIVE Run(_, _, _), RunSeq(_, _, _, _)
Run(t, val, loops) ==
    CASE t[1] = "L" -> <<<<t[2], loops>>>>
      [] t[1] = "N" -> <<>>
      [] t[1] = "B" -> RunSeq(t[2], 1, val, loops)
      [] t[1] = "I" -> IF CondHolds(t[2], val) THEN Run(t[3], val, loops) ELSE <<>>
      [] t[1] = "E" -> IF CondHolds(t[2], val) THEN Run(t[3], val, loops) ELSE Run(t[4], val, loops)
      [] t[1] = "F" -> Run(t[5], val, Append(loops, <<t[2], t[3], t[4], 1>>))
                       \o Run(t[5], val, Append(loops, <<t[2], t[3], t[4], 2>>))
RunSeq(s, k, val, loops) ==
    IF k > Len(s) THEN <<>> ELSE Run(s[k], val, loops) \o RunSeq(s, k + 1, val, loops)

LeafIds(run) == [k \in DOMAIN run |-> run[k][1]]
\* the loops of an execution without / only the iteration numbers
LoopDecl(ls) == [k \in DOMAIN ls |-> <<ls[k][1], ls[k][2], ls[k][3]>>]
LoopIter(ls) == [k \in DOMAIN ls |-> ls[k][4]]
=============================================================================
