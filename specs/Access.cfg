INIT Init
NEXT Next
CHECK_DEADLOCK FALSE
INVARIANT DeclCovers
INVARIANT ObservedCovered
INVARIANT IdentityStable
INVARIANT Drift
