CONSTANTS
  MaxN = 12
  MaxReq = 99
  MaxSteps = 99
  MoveRequested = TRUE
INIT TInit
NEXT TNext
CHECK_DEADLOCK FALSE
INVARIANT Verdict
INVARIANT Consumed
INVARIANT KnownEvents
