INIT Init
NEXT Next
CHECK_DEADLOCK FALSE
INVARIANT ExactlyEnabledOnce
INVARIANT LoopsAsDeclared
INVARIANT DepsRespected
INVARIANT OrderIndependent
INVARIANT NoError
