INIT Init
NEXT Next
CHECK_DEADLOCK FALSE
INVARIANT IdsUnique
INVARIANT Complete
INVARIANT DepsIntact
INVARIANT SameShape
INVARIANT RenamingFunction
INVARIANT AsAsked
INVARIANT InputsUnchanged
