------------------------------ MODULE RefCount ------------------------------
(***************************************************************************)
(* Heap model for C12.  The program is NOT modelled: it is the memory-     *)
(* management skeleton extracted from the module that the real Fortran     *)
(* generator emitted (harness/fextract.py): per subroutine a list of       *)
(* abstract instructions over reference-counted pointers.  This module     *)
(* gives those instructions their meaning -- the copy-on-write reference   *)
(* counting of dagrt_alloc_check / dagrt_deinit, pointer moves, counter    *)
(* updates -- and TLC explores initialize, then up to MaxRuns calls of     *)
(* run, then shutdown, under EVERY valuation of the branch conditions of   *)
(* each subroutine invocation (guards, loop entry).                        *)
(*   FreedOnce             a block or counter is never released twice      *)
(*   NoUseOfFreedOrNull    no read/write through a null, undefined or      *)
(*                         released pointer; no counter access through a   *)
(*                         released counter                                *)
(*   NoLeakAtShutdown      after shutdown no block is still allocated      *)
(*                         (storage still referenced by a phase function's *)
(*                         local pointer when it returns is lost)          *)
(***************************************************************************)
EXTENDS Integers, Sequences, FiniteSets, TLC, Json, IOUtils

Cases == JsonDeserialize(IOEnv.CASES)
CONSTANTS MaxRuns, MaxIters

VARIABLES cid, stage, sub, pc, ret, assoc, rcp, cell, liveB, liveC, nb, nc, flagval, nextPhase, nruns, err, path,
          iters     \* back jumps of do-loops taken in the current top-level call (bounded by MaxIters)
vars == <<cid, stage, sub, pc, ret, assoc, rcp, cell, liveB, liveC, nb, nc, flagval, nextPhase, nruns, err, path, iters>>

P == Cases[cid]
Ins == P.subs[sub]
SeqSet(s) == {s[k] : k \in DOMAIN s}
VecVars == SeqSet(P.allvec)
RcVars == SeqSet(P.allrc)
Undef == -1

Init ==
    /\ cid \in DOMAIN Cases
    /\ stage = "start" /\ sub = "" /\ pc = 0 /\ ret = <<>>
    /\ assoc = [v \in SeqSet(Cases[cid].allvec) |-> Undef]
    /\ rcp = [r \in SeqSet(Cases[cid].allrc) |-> Undef]
    /\ cell = <<>> /\ liveB = {} /\ liveC = {} /\ nb = 0 /\ nc = 0
    /\ flagval = <<>> /\ nextPhase = "" /\ nruns = 0 /\ err = "" /\ path = <<>> /\ iters = 0

\* P.flags[s]: the free condition names of subroutine s; names in P.phaselits / P.assoclits and "$false" are computed
LocalsOf(s) == SeqSet(P.locals[s].vec)
LocalRcOf(s) == SeqSet(P.locals[s].rc)

\* enter a subroutine: its locals are undefined, its branch conditions get a valuation
Enter(s, r) ==
    /\ sub' = s /\ pc' = 1 /\ ret' = r
    /\ assoc' = [v \in DOMAIN assoc |-> IF v \in LocalsOf(s) THEN Undef ELSE assoc[v]]
    /\ rcp' = [x \in DOMAIN rcp |-> IF x \in LocalRcOf(s) THEN Undef ELSE rcp[x]]
    /\ flagval' \in [SeqSet(P.flags[s]) -> BOOLEAN]          \* every valuation of this invocation's free conditions

Start ==
    /\ stage = "start"
    /\ stage' = "init"
    /\ Enter("initialize", <<>>)
    /\ UNCHANGED <<cid, cell, liveB, liveC, nb, nc, nextPhase, nruns, err, path, iters>>

Run ==
    /\ stage = "idle" /\ nruns < MaxRuns /\ err = ""
    /\ stage' = "run" /\ nruns' = nruns + 1
    /\ Enter("run", <<>>)
    /\ iters' = 0
    /\ UNCHANGED <<cid, cell, liveB, liveC, nb, nc, nextPhase, err, path>>

Shutdown ==
    /\ stage = "idle" /\ err = ""
    /\ stage' = "shutdown"
    /\ Enter("shutdown", <<>>)
    /\ UNCHANGED <<cid, cell, liveB, liveC, nb, nc, nextPhase, nruns, err, path, iters>>

\* truth of a literal <<name, polarity>> in the current invocation
LitName(l) == l[1]
Holds(l) ==
    LET n == l[1]
        v == IF n = "$false" THEN FALSE
             ELSE IF n \in DOMAIN P.phaselits THEN nextPhase = P.phaselits[n]
             ELSE IF n \in DOMAIN P.assoclits THEN assoc[P.assoclits[n]] > 0
             ELSE flagval[n]
    IN v = l[2]
CondHolds(lits) == \A k \in DOMAIN lits : Holds(lits[k])

Fault(e) == /\ err' = e /\ stage' = "error"
            /\ UNCHANGED <<cid, sub, pc, ret, assoc, rcp, cell, liveB, liveC, nb, nc, flagval, nextPhase, nruns, iters>>
            /\ path' = Append(path, <<sub, pc>>)
Next1 == pc' = pc + 1 /\ UNCHANGED <<cid, stage, sub, ret, flagval, nruns, err, iters>> /\ path' = path

CellOK(r) == rcp[r] \in liveC

Step ==
    /\ stage \in {"init", "run", "shutdown"} /\ err = ""
    /\ LET i == Ins[pc] IN
       CASE i[1] = "use" ->
              IF assoc[i[2]] > 0 /\ assoc[i[2]] \in liveB
              THEN Next1 /\ UNCHANGED <<assoc, rcp, cell, liveB, liveC, nb, nc, nextPhase>>
              ELSE Fault(IF assoc[i[2]] = Undef THEN "NoUseOfFreedOrNull:undefined-pointer"
                         ELSE IF assoc[i[2]] = 0 THEN "NoUseOfFreedOrNull:null-pointer" ELSE "NoUseOfFreedOrNull:released-storage")
         [] i[1] = "nullify" ->
              Next1 /\ assoc' = [assoc EXCEPT ![i[2]] = 0] /\ UNCHANGED <<rcp, cell, liveB, liveC, nb, nc, nextPhase>>
         [] i[1] = "alloc" ->
              IF assoc[i[2]] = Undef THEN Fault("NoUseOfFreedOrNull:alloc-check-on-undefined-pointer")
              ELSE IF assoc[i[2]] = 0
              THEN /\ Next1 /\ nb' = nb + 1 /\ nc' = nc + 1
                   /\ assoc' = [assoc EXCEPT ![i[2]] = nb + 1] /\ rcp' = [rcp EXCEPT ![i[3]] = nc + 1]
                   /\ liveB' = liveB \cup {nb + 1} /\ liveC' = liveC \cup {nc + 1}
                   /\ cell' = [c \in DOMAIN cell \cup {nc + 1} |-> IF c = nc + 1 THEN 1 ELSE cell[c]]
                   /\ UNCHANGED nextPhase
              ELSE IF ~CellOK(i[3]) THEN Fault("NoUseOfFreedOrNull:released-counter")
              ELSE IF cell[rcp[i[3]]] # 1
              THEN /\ Next1 /\ nb' = nb + 1 /\ nc' = nc + 1
                   /\ assoc' = [assoc EXCEPT ![i[2]] = nb + 1] /\ rcp' = [rcp EXCEPT ![i[3]] = nc + 1]
                   /\ liveB' = liveB \cup {nb + 1} /\ liveC' = liveC \cup {nc + 1}
                   /\ cell' = [c \in DOMAIN cell \cup {nc + 1} |-> IF c = nc + 1 THEN 1
                                                                    ELSE IF c = rcp[i[3]] THEN cell[c] - 1 ELSE cell[c]]
                   /\ UNCHANGED nextPhase
              ELSE Next1 /\ UNCHANGED <<assoc, rcp, cell, liveB, liveC, nb, nc, nextPhase>>
         [] i[1] = "deinit" ->
              IF assoc[i[2]] = Undef THEN Fault("NoUseOfFreedOrNull:deinit-of-undefined-pointer")
              ELSE IF assoc[i[2]] = 0 THEN Next1 /\ UNCHANGED <<assoc, rcp, cell, liveB, liveC, nb, nc, nextPhase>>
              ELSE IF ~CellOK(i[3]) THEN Fault("NoUseOfFreedOrNull:released-counter")
              ELSE IF cell[rcp[i[3]]] = 1
              THEN IF assoc[i[2]] \notin liveB THEN Fault("FreedOnce:block-released-twice")
                   ELSE /\ Next1 /\ liveB' = liveB \ {assoc[i[2]]} /\ liveC' = liveC \ {rcp[i[3]]}
                        /\ assoc' = [assoc EXCEPT ![i[2]] = 0]
                        /\ UNCHANGED <<rcp, cell, nb, nc, nextPhase>>
              ELSE /\ Next1 /\ assoc' = [assoc EXCEPT ![i[2]] = 0]
                   /\ cell' = [cell EXCEPT ![rcp[i[3]]] = @ - 1]
                   /\ UNCHANGED <<rcp, liveB, liveC, nb, nc, nextPhase>>
         [] i[1] = "passign" ->
              IF i[2] \in VecVars
              THEN Next1 /\ assoc' = [assoc EXCEPT ![i[2]] = assoc[i[3]]] /\ UNCHANGED <<rcp, cell, liveB, liveC, nb, nc, nextPhase>>
              ELSE Next1 /\ rcp' = [rcp EXCEPT ![i[2]] = rcp[i[3]]] /\ UNCHANGED <<assoc, cell, liveB, liveC, nb, nc, nextPhase>>
         [] i[1] = "incr" ->
              IF ~CellOK(i[2]) THEN Fault("NoUseOfFreedOrNull:released-counter")
              ELSE Next1 /\ cell' = [cell EXCEPT ![rcp[i[2]]] = @ + 1] /\ UNCHANGED <<assoc, rcp, liveB, liveC, nb, nc, nextPhase>>
         [] i[1] = "setrc" ->
              IF ~CellOK(i[2]) THEN Fault("NoUseOfFreedOrNull:released-counter")
              ELSE Next1 /\ cell' = [cell EXCEPT ![rcp[i[2]]] = 1] /\ UNCHANGED <<assoc, rcp, liveB, liveC, nb, nc, nextPhase>>
         [] i[1] = "allocraw" ->
              /\ Next1 /\ nb' = nb + 1 /\ assoc' = [assoc EXCEPT ![i[2]] = nb + 1] /\ liveB' = liveB \cup {nb + 1}
              /\ UNCHANGED <<rcp, cell, liveC, nc, nextPhase>>
         [] i[1] = "allocrc" ->
              /\ Next1 /\ nc' = nc + 1 /\ rcp' = [rcp EXCEPT ![i[2]] = nc + 1] /\ liveC' = liveC \cup {nc + 1}
              /\ cell' = [c \in DOMAIN cell \cup {nc + 1} |-> IF c = nc + 1 THEN 0 ELSE cell[c]]
              /\ UNCHANGED <<assoc, liveB, nb, nextPhase>>
         [] i[1] = "br" ->
              /\ pc' = IF CondHolds(i[3]) THEN pc + 1 ELSE i[2]
              /\ path' = Append(path, <<sub, pc, CondHolds(i[3])>>)
              /\ UNCHANGED <<cid, stage, sub, ret, assoc, rcp, cell, liveB, liveC, nb, nc, flagval, nextPhase, nruns, err, iters>>
         [] i[1] = "jmp" ->
              /\ pc' = i[2] /\ path' = path
              /\ UNCHANGED <<cid, stage, sub, ret, assoc, rcp, cell, liveB, liveC, nb, nc, flagval, nextPhase, nruns, err, iters>>
         [] i[1] = "again" ->
              \* end of a loop body: another iteration (bounded) or on
              \* (conditions tested inside the body may be computed from the loop variable: they get a new valuation
              \* in every iteration)
              /\ \E back \in BOOLEAN :
                    /\ (back => iters < MaxIters)
                    /\ pc' = IF back THEN i[2] ELSE pc + 1
                    /\ iters' = IF back THEN iters + 1 ELSE iters
                    /\ path' = Append(path, <<sub, pc, back>>)
                    /\ IF back
                       THEN LET body == {x \in i[2]..pc : Ins[x][1] = "br"}
                                names == (UNION {{Ins[x][3][j][1] : j \in DOMAIN Ins[x][3]} : x \in body} \cap DOMAIN flagval)
                                         \cap SeqSet(P.loopflags)       \* computed condition variables only
                            IN flagval' \in {f \in [DOMAIN flagval -> BOOLEAN] : \A n \in DOMAIN flagval \ names : f[n] = flagval[n]}
                       ELSE flagval' = flagval
              /\ UNCHANGED <<cid, stage, sub, ret, assoc, rcp, cell, liveB, liveC, nb, nc, nextPhase, nruns, err>>
         [] i[1] = "setphase" ->
              Next1 /\ nextPhase' = i[2] /\ UNCHANGED <<assoc, rcp, cell, liveB, liveC, nb, nc>>
         [] i[1] = "call" ->
              /\ Enter(i[2], <<sub, pc + 1, flagval>>)
              /\ path' = Append(path, <<"call", i[2]>>)
              /\ UNCHANGED <<cid, stage, cell, liveB, liveC, nb, nc, nextPhase, nruns, err, iters>>
         [] i[1] = "stop" ->
              /\ stage' = "stopped" /\ path' = path
              /\ UNCHANGED <<cid, sub, pc, ret, assoc, rcp, cell, liveB, liveC, nb, nc, flagval, nextPhase, nruns, err, iters>>
         [] i[1] = "ret" ->
              IF ret # <<>>
              THEN /\ sub' = ret[1] /\ pc' = ret[2] /\ flagval' = ret[3] /\ ret' = <<>> /\ path' = path
                   /\ UNCHANGED <<cid, stage, assoc, rcp, cell, liveB, liveC, nb, nc, nextPhase, nruns, err, iters>>
              ELSE /\ stage' = IF stage = "shutdown" THEN "done" ELSE "idle"
                   /\ path' = path
                   /\ UNCHANGED <<cid, sub, pc, ret, assoc, rcp, cell, liveB, liveC, nb, nc, flagval, nextPhase, nruns, err, iters>>

Next == Start \/ Run \/ Shutdown \/ Step
Spec == Init /\ [][Next]_vars

SafetyStrict == err = ""
NoLeakAtShutdownStrict == stage = "done" => liveB = {}

Safety == SafetyStrict \/ PrintT(<<"BAD", cid, err, nruns>>)
NoLeakAtShutdown == NoLeakAtShutdownStrict \/ PrintT(<<"BAD", cid, "NoLeakAtShutdown", nruns>>)
Bound == nb <= 14
=============================================================================
