------------------------------ MODULE SelfComp ------------------------------
(***************************************************************************)
(* Self-composition for determinism properties (C14 order part, C15):      *)
(* several runs of the same opaque computation on the same description,    *)
(* each under a different configuration (container order, hash seed,       *)
(* process history), must be observationally equal.  A case is the list of *)
(* runs; a run is [cfg, out] with out a sequence of chunks (lines of       *)
(* generated text, entries of a kind table, events).  TLC steps through    *)
(* the chunks of all copies in lockstep; the first differing chunk is the  *)
(* counterexample.                                                         *)
(***************************************************************************)
EXTENDS Naturals, Sequences, TLC, Json, IOUtils

Cases == JsonDeserialize(IOEnv.CASES)

VARIABLES cid, pos
vars == <<cid, pos>>

Runs(k) == Cases[k].runs
MaxLen(k) == LET R == Runs(k) IN
               LET RECURSIVE M(_)
                   M(i) == IF i = 0 THEN 0 ELSE
                             LET r == M(i - 1) IN IF Len(R[i].out) > r THEN Len(R[i].out) ELSE r
               IN M(Len(R))

Chunk(r, p) == IF p <= Len(r.out) THEN r.out[p] ELSE "<end of output>"

ObservationalDeterminismStrict ==
    IF pos = 0 THEN TRUE
    ELSE \A i \in DOMAIN Runs(cid) : Chunk(Runs(cid)[i], pos) = Chunk(Runs(cid)[1], pos)

Init == cid \in DOMAIN Cases /\ pos = 0

\* all copies emit their next chunk
Step == /\ pos < MaxLen(cid)
        /\ ObservationalDeterminismStrict          \* a case is abandoned at its first difference
        /\ pos' = pos + 1
        /\ UNCHANGED cid

Next == Step

FirstDiff == CHOOSE i \in DOMAIN Runs(cid) : Chunk(Runs(cid)[i], pos) # Chunk(Runs(cid)[1], pos)

ObservationalDeterminism ==
    ObservationalDeterminismStrict \/ PrintT(<<"BAD", cid, pos, FirstDiff>>)
=============================================================================
